//! Hand-written catalogue of declarations for the translation validation of `#[derive(BinaryCodec)]` (pack D).
//! Nothing here is executed: the crate is only type-checked under the mirdump driver, and the generated impls are
//! compared with an independent model of the documented derivation procedure.
#![allow(dead_code)]
use desert::BinaryCodec;
use std::collections::{BTreeMap, HashSet};

pub mod bad;

// ------------------------------------------------------------------------------------------------ plain structs
#[derive(BinaryCodec)]
pub struct Unit0 {}

#[derive(BinaryCodec)]
pub struct One {
    pub a: u8,
}

#[derive(BinaryCodec)]
pub struct Two {
    pub a: u8,
    pub b: String,
}

#[derive(BinaryCodec)]
pub struct Five {
    pub a: u8,
    pub b: i64,
    pub c: String,
    pub d: Vec<u32>,
    pub e: (u8, u16),
}

#[derive(BinaryCodec)]
pub struct Twelve {
    pub f01: u8,
    pub f02: u16,
    pub f03: u32,
    pub f04: u64,
    pub f05: i8,
    pub f06: i16,
    pub f07: i32,
    pub f08: i64,
    pub f09: f32,
    pub f10: f64,
    pub f11: bool,
    pub f12: char,
}

// ------------------------------------------------------------------------------------------------ Option spellings
pub type OptAlias<T> = Option<T>;

#[derive(BinaryCodec)]
pub struct Opts {
    pub plain: Option<u8>,
    pub std_path: std::option::Option<String>,
    pub core_path: core::option::Option<u16>,
    pub nested: Option<Option<u8>>,
    pub alias: OptAlias<u8>,
    pub not_option: Vec<Option<u8>>,
}

#[derive(BinaryCodec)]
#[evolution(FieldMadeOptional("b"), FieldMadeOptional("c"))]
pub struct OptsMadeOptional {
    pub a: u32,
    pub b: std::option::Option<String>,
    pub c: core::option::Option<u16>,
    pub d: u8,
}

// ------------------------------------------------------------------------------------------------ transient fields
#[derive(BinaryCodec)]
pub struct TransientFirst {
    #[transient(7u32)]
    pub t: u32,
    pub a: u8,
    pub b: String,
}

#[derive(BinaryCodec)]
pub struct TransientMiddle {
    pub a: u8,
    #[transient(String::from("middle"))]
    pub t: String,
    pub b: String,
}

#[derive(BinaryCodec)]
pub struct TransientLast {
    pub a: u8,
    pub b: String,
    #[transient(None::<String>)]
    pub t: Option<String>,
}

#[derive(BinaryCodec)]
pub struct TransientAll {
    #[transient(1u8)]
    pub t1: u8,
    #[transient(Vec::new())]
    pub t2: Vec<u8>,
}

#[derive(BinaryCodec)]
pub struct TransientTwo {
    #[transient(0u8)]
    pub t1: u8,
    pub a: u8,
    #[transient(false)]
    pub t2: bool,
    pub b: u16,
}

// ------------------------------------------------------------------------------------------------ evolution histories
#[derive(BinaryCodec)]
#[evolution(FieldAdded("b", 5u16))]
pub struct Added1 {
    pub a: u8,
    pub b: u16,
}

#[derive(BinaryCodec)]
#[evolution(FieldAdded("b", 5u16), FieldAdded("c", String::new()))]
pub struct Added2 {
    pub a: u8,
    pub b: u16,
    pub c: String,
}

#[derive(BinaryCodec)]
#[evolution(FieldAdded("b", 5u16), FieldAdded("c", String::new()), FieldAdded("d", None))]
pub struct Added3 {
    pub a: u8,
    pub b: u16,
    pub c: String,
    pub d: Option<u64>,
}

/// a later-generation field declared *before* fields of the initial version
#[derive(BinaryCodec)]
#[evolution(FieldAdded("late", desert::DeduplicatedString(String::new())))]
pub struct AddedDeclaredFirst {
    pub late: desert::DeduplicatedString,
    pub early: desert::DeduplicatedString,
    pub other: u8,
}

#[derive(BinaryCodec)]
#[evolution(FieldAdded("x", 1u8), FieldMadeOptional("y"))]
pub struct AddedBeforeMadeOptional {
    pub x: u8,
    pub pad: u8,
    pub y: Option<u32>,
    pub z: u8,
}

#[derive(BinaryCodec)]
#[evolution(FieldMadeOptional("b"))]
pub struct MadeOptional {
    pub a: u8,
    pub b: Option<String>,
    pub c: u8,
}

#[derive(BinaryCodec)]
#[evolution(FieldMadeOptional("o"))]
pub struct MadeOptionalAfterOption {
    pub first: Option<u8>,
    pub o: Option<u32>,
    pub last: u16,
}

#[derive(BinaryCodec)]
#[evolution(FieldRemoved("gone"))]
pub struct Removed {
    pub a: u8,
    pub b: String,
}

#[derive(BinaryCodec)]
#[evolution(FieldMadeTransient("t"))]
pub struct MadeTransient {
    pub a: u8,
    #[transient(None)]
    pub t: Option<String>,
}

#[derive(BinaryCodec)]
#[evolution(FieldMadeOptional("t"), FieldMadeTransient("t"))]
pub struct OptionalThenTransient {
    pub a: u8,
    #[transient(None)]
    pub t: Option<String>,
}

#[derive(BinaryCodec)]
#[evolution(FieldAdded("t", None), FieldMadeOptional("t"), FieldMadeTransient("t"))]
pub struct AddedOptionalTransient {
    pub a: u8,
    #[transient(None)]
    pub t: Option<String>,
}

#[derive(BinaryCodec)]
#[evolution(FieldMadeOptional("g"), FieldRemoved("g"))]
pub struct OptionalThenRemoved {
    pub a: u8,
    pub b: u8,
}

#[derive(BinaryCodec)]
#[evolution(FieldAdded("b", 0u8), FieldMadeOptional("a"), FieldAdded("c", Some(String::from("c"))), FieldRemoved("old"))]
pub struct Mixed {
    pub a: Option<u8>,
    pub b: u8,
    pub c: Option<String>,
}

// ------------------------------------------------------------------------------------------------ nesting, recursion
#[derive(BinaryCodec)]
#[evolution(FieldAdded("inner2", Added1 { a: 0, b: 0 }))]
pub struct NestedInEvolved {
    pub inner: Two,
    pub inner2: Added1,
    pub tail: u8,
}

#[derive(BinaryCodec)]
#[evolution(FieldAdded("e", Shape::Dot))]
pub struct EnumInEvolved {
    pub before: u8,
    pub e: Shape,
    pub after: String,
}

#[derive(BinaryCodec)]
pub struct RecOption {
    pub value: u8,
    pub next: Option<Box<RecOption>>,
}

#[derive(BinaryCodec)]
pub struct RecVec {
    pub value: u8,
    pub children: Vec<RecVec>,
}

#[derive(BinaryCodec)]
pub struct Containers {
    pub m: BTreeMap<String, Vec<u8>>,
    pub s: HashSet<u32>,
    pub arr: [u16; 4],
    pub bytes: [u8; 8],
    pub t: (u8, String, Option<u8>),
}

// ------------------------------------------------------------------------------------------------ enums
#[derive(BinaryCodec)]
pub enum Shape {
    Dot,
    Circle(u32),
    Rect { w: u32, h: u32 },
}

#[derive(BinaryCodec)]
pub enum UnitOnly {
    A,
    B,
    C,
}

#[derive(BinaryCodec)]
pub enum Single {
    Only(String),
}

#[derive(BinaryCodec)]
pub enum TupleArity {
    T0(),
    T1(u8),
    T2(u8, String),
    T3(u8, String, Option<u16>),
}

#[derive(BinaryCodec)]
pub enum TransientFirstCtor {
    #[transient]
    Cache(String),
    A,
    B(u8),
}

#[derive(BinaryCodec)]
pub enum TransientMiddleCtor {
    A,
    #[transient]
    Cache { v: u8 },
    B(u8),
    C,
}

#[derive(BinaryCodec)]
pub enum TransientLastCtor {
    A,
    B(u8),
    #[transient]
    Cache,
}

#[derive(BinaryCodec)]
#[sorted_constructors]
pub enum Sorted {
    Zeta,
    Alpha(u8),
    Mid { x: u8 },
    Beta,
}

/// declared order differs from name order and a transient constructor sits where the two orders disagree
#[derive(BinaryCodec)]
#[sorted_constructors]
pub enum SortedTransient {
    #[transient]
    Zap,
    Alpha,
    Mid(u8),
    #[transient]
    Beta(u8),
    Omega,
}

#[derive(BinaryCodec)]
pub enum VariantEvolution {
    Plain(u8),
    #[evolution(FieldAdded("extra", 9u16))]
    Named { base: u8, extra: u16 },
    #[evolution(FieldAdded("field1", String::new()), FieldMadeOptional("field0"))]
    Tuple(Option<u8>, String),
    #[evolution(FieldMadeTransient("cache"))]
    WithTransient {
        keep: u8,
        #[transient(None)]
        cache: Option<String>,
    },
}

#[derive(BinaryCodec)]
pub enum TransientFieldInVariant {
    A {
        #[transient(3u8)]
        t: u8,
        a: u16,
    },
    B(#[transient(String::new())] String, u8),
}

// extension pairs: E1 is a prefix of E2 in declaration order; S1 a prefix of S2 in name order
#[derive(BinaryCodec)]
pub enum ExtBase {
    A,
    B(u8),
}

#[derive(BinaryCodec)]
pub enum ExtMore {
    A,
    B(u8),
    C(String),
    D { x: u8 },
}

#[derive(BinaryCodec)]
#[sorted_constructors]
pub enum SortedBase {
    Bravo(u8),
    Alpha,
}

#[derive(BinaryCodec)]
#[sorted_constructors]
pub enum SortedMore {
    Zulu,
    Bravo(u8),
    Charlie(String),
    Alpha,
}

#[derive(BinaryCodec)]
pub enum RecEnum {
    Leaf(u8),
    Node(Box<RecEnum>, Box<RecEnum>),
    Many(Vec<RecEnum>),
}

#[derive(BinaryCodec)]
pub struct UsesEverything {
    pub s: Shape,
    pub v: VariantEvolution,
    pub m: Mixed,
    pub o: Option<Sorted>,
}

// ------------------------------------------------------------------------------------------------ attribute positions
// helper attributes are honoured wherever they stand among a declaration's other attributes (doc comments, lints, cfg_attr)

#[derive(BinaryCodec)]
pub struct TransientAfterDoc {
    pub a: u8,
    /// cached value, not part of the wire format
    #[transient(11u32)]
    pub t: u32,
    pub b: String,
}

#[derive(BinaryCodec)]
pub struct TransientAfterLint {
    #[allow(dead_code)]
    #[transient(String::from("lint"))]
    pub t: String,
    pub a: u8,
}

#[derive(BinaryCodec)]
pub struct TransientBeforeDoc {
    pub a: u16,
    #[transient(false)]
    /// documented after the helper attribute
    #[allow(dead_code)]
    pub t: bool,
}

#[derive(BinaryCodec)]
#[evolution(FieldAdded("b", 5u8), FieldMadeTransient("t"))]
pub struct TransientAfterDocEvolved {
    pub a: u8,
    /// dropped from the wire in version 2
    #[allow(dead_code)]
    #[transient(None)]
    pub t: Option<u8>,
    pub b: u8,
}

#[derive(BinaryCodec)]
pub enum TransientCtorAfterDoc {
    A,
    /// never serialized
    #[transient]
    Cache(u8),
    #[allow(dead_code)]
    #[transient]
    Scratch { v: String },
    B(u8),
}

/// documentation between derive and the helper attributes
#[derive(BinaryCodec)]
/// more documentation
#[allow(dead_code)]
#[evolution(FieldAdded("c", 1u8))]
#[allow(clippy::all)]
pub struct EvolutionAfterDoc {
    pub a: u8,
    pub c: u8,
}

#[derive(BinaryCodec)]
/// documented
#[allow(dead_code)]
#[sorted_constructors]
pub enum SortedAfterDoc {
    Zed,
    /// never serialized
    #[transient]
    Mid,
    Alpha(u8),
}

#[derive(BinaryCodec)]
pub enum VariantAttrsAfterDoc {
    /// documented variant
    #[allow(dead_code)]
    #[evolution(FieldAdded("y", 2u8))]
    P { x: u8, y: u8 },
    Q(
        /// documented field
        #[transient(9u8)]
        u8,
        u16,
    ),
}

// sorted_constructors orders the constructors by their names as strings (byte order), so upper-case letters sort before
// lower-case ones: ABc < IO < Id < Zed < ab (names differing only in case would collide in the generated statics)
#[derive(BinaryCodec)]
#[sorted_constructors]
#[allow(non_camel_case_types)]
pub enum SortedCaseSensitive {
    ab(u8),
    Id(u8),
    Zed,
    IO { x: u8 },
    ABc,
}

// explicit discriminants are plain Rust and say nothing about the wire: constructor ids stay the declaration positions
// (or the sorted positions), also when a discriminant coincides with another variant's position
#[derive(BinaryCodec)]
pub enum WithDiscriminants {
    Low = 1,
    Medium,
    High = 7,
    Off = 0,
}

#[derive(BinaryCodec)]
#[sorted_constructors]
pub enum SortedWithDiscriminants {
    Zulu = 0,
    Alpha = 1,
    Mike = 2,
}

// a field that was added with one default and later made transient with another: the transient default is what a
// reader builds (the FieldAdded default is for data written before the field existed)
#[derive(BinaryCodec)]
#[evolution(FieldAdded("t", 5u32), FieldMadeTransient("t"))]
pub struct TransientAfterAddedDefault {
    pub a: u8,
    #[transient(7u32)]
    pub t: u32,
}

// ------------------------------------------------------------------------------------------------ spellings of Option
// `Option` is recognised through parentheses and through the invisible groups a macro_rules `$t:ty` fragment puts around it
#[derive(BinaryCodec)]
#[evolution(FieldMadeOptional("b"), FieldAdded("c", None))]
pub struct OptionInParens {
    pub a: u8,
    pub b: (Option<u16>),
    pub c: (std::option::Option<String>),
}

macro_rules! via_ty {
    ($(#[$m:meta])* pub struct $name:ident { $(pub $f:ident : $t:ty),* $(,)? }) => {
        $(#[$m])* pub struct $name { $(pub $f: $t),* }
    };
    ($(#[$m:meta])* pub enum $name:ident { $($v:ident ( $($t:ty),* )),* $(,)? }) => {
        $(#[$m])* pub enum $name { $($v($($t),*)),* }
    };
}

via_ty! {
    #[derive(BinaryCodec)]
    #[evolution(FieldMadeOptional("b"), FieldAdded("c", None))]
    pub struct OptionViaMacro { pub a: u8, pub b: Option<u16>, pub c: core::option::Option<u8>, pub d: Vec<Option<u8>> }
}

via_ty! {
    #[derive(BinaryCodec)]
    pub enum OptionViaMacroEnum { A(Option<u8>, u16), B(String) }
}

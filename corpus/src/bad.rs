//! Positive examples for zero-expectation rules: each function contains exactly one construct that a rule must flag.
//! They are analysed on every run; a rule that stops matching its example fails the check (self-test).
#![allow(dead_code, clippy::all)]
use desert::{BinaryInput, DeserializationContext, Result};
use std::collections::HashMap;

/// N3: signed wire value reinterpreted as a size
pub fn bad_sign_cast(ctx: &mut DeserializationContext<'_>) -> Result<usize> {
    let n = ctx.read_var_i32()?;
    Ok(n as usize)
}

/// N4: allocation sized by a wire value
pub fn bad_alloc(ctx: &mut DeserializationContext<'_>) -> Result<Vec<u8>> {
    let n = ctx.read_var_u32()? as usize;
    Ok(Vec::with_capacity(n))
}

/// E1: swallowed library error
pub fn bad_swallow(ctx: &mut DeserializationContext<'_>) -> u8 {
    ctx.read_u8().unwrap_or(0)
}

/// U2: transmute_copy from a reference
pub fn bad_transmute(bytes: &[u8]) -> [u8; 4] {
    unsafe { std::mem::transmute_copy::<&[u8], [u8; 4]>(&bytes) }
}

/// U3: uninitialised memory
pub fn bad_uninit() -> [u8; 4] {
    unsafe { std::mem::MaybeUninit::<[u8; 4]>::uninit().assume_init() }
}

/// S4-like: iteration over a hash map inside a codec-shaped function
pub fn bad_hash_iteration(m: &HashMap<String, u8>) -> Vec<u8> {
    m.values().copied().collect()
}

/// N1: explicit panic in decode-shaped code
pub fn bad_panic(ctx: &mut DeserializationContext<'_>) -> Result<u8> {
    let b = ctx.read_u8()?;
    if b > 3 {
        unreachable!()
    }
    Ok(b)
}

/// N1: unguarded index
pub fn bad_index(ctx: &mut DeserializationContext<'_>, table: &[u8]) -> Result<u8> {
    let b = ctx.read_u8()?;
    Ok(table[b as usize])
}

/// S1: mutable global state
pub static mut BAD_COUNTER: u32 = 0;

/// U7: the lifetime of the returned reference is chosen by the caller
pub fn bad_unbounded<'r>(p: *const u8) -> &'r u8 {
    unsafe { &*p }
}

#!/usr/bin/env bash
# Build the engines from files on disk only (offline).
set -euo pipefail
cd "$(dirname "$0")"
export CARGO_NET_OFFLINE=true
(cd engine/mirdump && cargo build --release --offline)
if [ -d engine/declscan ]; then (cd engine/declscan && cp /repo/Cargo.lock Cargo.lock 2>/dev/null || true; cargo build --release --offline); fi
echo "setup ok"

#!/usr/bin/env bash
# Extract MIR/item facts of a cargo workspace with the mirdump driver.
#   extract.sh <workspace-dir> <out-dir> [extra cargo args...]
# One JSON per crate/target is written to <out-dir>.  A fresh CARGO_TARGET_DIR is used (a warm one
# makes cargo skip the wrapper) and removed afterwards.
set -euo pipefail
WS="$1"; OUT="$2"; shift 2
HERE="$(cd "$(dirname "${BASH_SOURCE[0]}")" && pwd)"
DRV="$HERE/mirdump/target/release/mirdump"
[ -x "$DRV" ] || { echo "extract: driver not built: $DRV (run setup)" >&2; exit 2; }
mkdir -p "$OUT"
SCRATCH="${VERIF_SCRATCH:-/var/tmp}"
mkdir -p "$SCRATCH"
TGT="$(mktemp -d "$SCRATCH/verif-target.XXXXXX")"
trap 'rm -rf "$TGT"' EXIT
SYSROOT="$(rustc +nightly --print sysroot)"
cd "$WS"
env LD_LIBRARY_PATH="$SYSROOT/lib" \
    RUSTFLAGS="-Zmir-opt-level=0 -Coverflow-checks=on -Cdebug-assertions=off -Awarnings" \
    RUSTC_WORKSPACE_WRAPPER="$DRV" MIRDUMP_OUT="$OUT" CARGO_TARGET_DIR="$TGT" CARGO_NET_OFFLINE=true \
    cargo +nightly check --offline "$@" >"$OUT/cargo.log" 2>&1 || { echo "extract: cargo check failed in $WS" >&2; tail -40 "$OUT/cargo.log" >&2; exit 3; }

#![feature(rustc_private)]
#![allow(unused)]
extern crate rustc_driver;
extern crate rustc_hir;
extern crate rustc_interface;
extern crate rustc_middle;
extern crate rustc_span;
extern crate rustc_abi;

use rustc_driver::Compilation;
use rustc_hir::def::DefKind;
use rustc_hir::def_id::DefId;
use rustc_middle::mir::{self, *};
use rustc_middle::ty::{self, Ty, TyCtxt, TypingEnv, Instance, GenericArgKind};
use rustc_span::Span;
use std::fmt::Write as _;

fn esc(s: &str) -> String {
    let mut o = String::with_capacity(s.len() + 2);
    o.push('"');
    for c in s.chars() {
        match c {
            '"' => o.push_str("\\\""),
            '\\' => o.push_str("\\\\"),
            '\n' => o.push_str("\\n"),
            '\t' => o.push_str("\\t"),
            '\r' => o.push_str("\\r"),
            c if (c as u32) < 0x20 => { let _ = write!(o, "\\u{:04x}", c as u32); }
            c => o.push(c),
        }
    }
    o.push('"');
    o
}

struct Cx<'tcx> { tcx: TyCtxt<'tcx> }

impl<'tcx> Cx<'tcx> {
    fn ty(&self, t: Ty<'tcx>) -> String {
        let tcx = self.tcx;
        let s = esc(&format!("{:?}", t));
        match t.kind() {
            ty::Bool => format!("{{\"k\":\"bool\",\"s\":{s}}}"),
            ty::Char => format!("{{\"k\":\"char\",\"s\":{s}}}"),
            ty::Int(i) => format!("{{\"k\":\"int\",\"n\":{},\"s\":{s}}}", esc(i.name_str())),
            ty::Uint(i) => format!("{{\"k\":\"uint\",\"n\":{},\"s\":{s}}}", esc(i.name_str())),
            ty::Float(i) => format!("{{\"k\":\"float\",\"n\":{},\"s\":{s}}}", esc(i.name_str())),
            ty::Str => format!("{{\"k\":\"str\",\"s\":{s}}}"),
            ty::Never => format!("{{\"k\":\"never\",\"s\":{s}}}"),
            ty::Adt(def, args) => {
                let a: Vec<String> = args.iter().map(|g| self.garg(g)).collect();
                format!("{{\"k\":\"adt\",\"path\":{},\"args\":[{}],\"s\":{s}}}", esc(&tcx.def_path_str(def.did())), a.join(","))
            }
            ty::Ref(_, inner, m) => format!("{{\"k\":\"ref\",\"mut\":{},\"t\":{},\"s\":{s}}}", m.is_mut(), self.ty(*inner)),
            ty::RawPtr(inner, m) => format!("{{\"k\":\"ptr\",\"mut\":{},\"t\":{},\"s\":{s}}}", m.is_mut(), self.ty(*inner)),
            ty::Array(inner, len) => format!("{{\"k\":\"array\",\"t\":{},\"len\":{},\"s\":{s}}}", self.ty(*inner), esc(&format!("{:?}", len))),
            ty::Slice(inner) => format!("{{\"k\":\"slice\",\"t\":{},\"s\":{s}}}", self.ty(*inner)),
            ty::Tuple(ts) => { let a: Vec<String> = ts.iter().map(|t| self.ty(t)).collect(); format!("{{\"k\":\"tuple\",\"ts\":[{}],\"s\":{s}}}", a.join(",")) }
            ty::Param(p) => format!("{{\"k\":\"param\",\"name\":{},\"s\":{s}}}", esc(p.name.as_str())),
            ty::Closure(did, _) => format!("{{\"k\":\"closure\",\"def\":{},\"s\":{s}}}", esc(&tcx.def_path_str(*did))),
            ty::FnDef(did, args) => { let a: Vec<String> = args.iter().map(|g| self.garg(g)).collect(); format!("{{\"k\":\"fndef\",\"def\":{},\"args\":[{}],\"s\":{s}}}", esc(&tcx.def_path_str(*did)), a.join(",")) }
            ty::Dynamic(..) => format!("{{\"k\":\"dyn\",\"s\":{s}}}"),
            _ => format!("{{\"k\":\"other\",\"s\":{s}}}"),
        }
    }
    fn garg(&self, g: ty::GenericArg<'tcx>) -> String {
        match g.kind() {
            GenericArgKind::Type(t) => self.ty(t),
            GenericArgKind::Lifetime(_) => "{\"k\":\"lt\"}".to_string(),
            GenericArgKind::Const(c) => format!("{{\"k\":\"const\",\"s\":{}}}", esc(&format!("{:?}", c))),
        }
    }
    fn span(&self, sp: Span) -> String {
        let sm = self.tcx.sess.source_map();
        let cs = sp.source_callsite();
        let lo = sm.lookup_char_pos(cs.lo());
        let mac = if sp.from_expansion() {
            let d = sp.ctxt().outer_expn_data();
            esc(&format!("{:?}", d.kind))
        } else { "null".to_string() };
        let direct = sm.lookup_char_pos(sp.lo());
        format!("{{\"f\":{},\"l\":{},\"c\":{},\"exp\":{},\"df\":{},\"dl\":{},\"dc\":{}}}",
            esc(&format!("{}", lo.file.name.prefer_local_unconditionally())), lo.line, lo.col.0 + 1, mac,
            esc(&format!("{}", direct.file.name.prefer_local_unconditionally())), direct.line, direct.col.0 + 1)
    }
    fn place(&self, body: &Body<'tcx>, p: &Place<'tcx>) -> String {
        let mut projs = Vec::new();
        let mut pty = PlaceTy::from_ty(body.local_decls[p.local].ty);
        for elem in p.projection.iter() {
            let j = match elem {
                ProjectionElem::Deref => "{\"p\":\"deref\"}".to_string(),
                ProjectionElem::Field(f, t) => {
                    let name = match pty.ty.kind() {
                        ty::Adt(def, _) => {
                            let v = match pty.variant_index { Some(v) => def.variant(v), None => if def.is_enum() { def.variant(rustc_abi::VariantIdx::from_u32(0)) } else { def.non_enum_variant() } };
                            v.fields.get(f).map(|fd| fd.name.to_string()).unwrap_or_default()
                        }
                        _ => String::new(),
                    };
                    format!("{{\"p\":\"field\",\"i\":{},\"name\":{},\"ty\":{}}}", f.as_u32(), esc(&name), self.ty(t))
                }
                ProjectionElem::Downcast(name, idx) => format!("{{\"p\":\"downcast\",\"variant\":{},\"i\":{}}}", esc(&name.map(|n| n.to_string()).unwrap_or_default()), idx.as_u32()),
                ProjectionElem::Index(l) => format!("{{\"p\":\"index\",\"local\":{}}}", l.as_u32()),
                ProjectionElem::ConstantIndex { offset, min_length, from_end } => format!("{{\"p\":\"constindex\",\"offset\":{},\"min\":{},\"from_end\":{}}}", offset, min_length, from_end),
                other => format!("{{\"p\":\"other\",\"s\":{}}}", esc(&format!("{:?}", other))),
            };
            projs.push(j);
            pty = pty.projection_ty(self.tcx, elem);
        }
        format!("{{\"local\":{},\"proj\":[{}],\"ty\":{}}}", p.local.as_u32(), projs.join(","), self.ty(pty.ty))
    }
    fn constant(&self, body: &Body<'tcx>, c: &ConstOperand<'tcx>) -> String {
        let tcx = self.tcx;
        let t = c.const_.ty();
        let mut val = "null".to_string();
        let mut fnj = "null".to_string();
        if let ty::FnDef(did, args) = t.kind() {
            fnj = self.callee(body, *did, args);
        } else {
            let env = TypingEnv::post_analysis(tcx, body.source.def_id());
            if let Some(si) = c.const_.try_eval_scalar_int(tcx, env) {
                let size = si.size();
                let bits = si.to_bits(size);
                let signed = matches!(t.kind(), ty::Int(_));
                if signed { let v = size.sign_extend(bits) as i128; val = format!("\"{}\"", v); } else { val = format!("\"{}\"", bits); }
            }
        }
        let cdef = match c.const_ {
            mir::Const::Unevaluated(u, _) => esc(&tcx.def_path_str(u.def)),
            _ => "null".to_string(),
        };
        let mut strval = "null".to_string();
        if let ty::Ref(_, inner, _) = t.kind() {
            if inner.is_str() {
                let env = TypingEnv::post_analysis(tcx, body.source.def_id());
                if let Ok(v) = c.const_.eval(tcx, env, c.span) {
                    if let Some(bytes) = v.try_get_slice_bytes_for_diagnostics(tcx) {
                        if let Ok(st) = std::str::from_utf8(bytes) { strval = esc(st); }
                    }
                }
            }
        }
        // `&<int>` constants (promoteds such as `&0`): read the pointee
        if val == "null" {
            if let ty::Ref(_, inner, _) = t.kind() {
                if matches!(inner.kind(), ty::Int(_) | ty::Uint(_) | ty::Bool) {
                    let env = TypingEnv::post_analysis(tcx, body.source.def_id());
                    if let Ok(mir::ConstValue::Scalar(rustc_middle::mir::interpret::Scalar::Ptr(ptr, _))) = c.const_.eval(tcx, env, c.span) {
                        let (prov, off) = ptr.into_raw_parts();
                        if let Some(rustc_middle::mir::interpret::GlobalAlloc::Memory(alloc)) = tcx.try_get_global_alloc(prov.alloc_id()) {
                            if let Ok(layout) = tcx.layout_of(env.as_query_input(*inner)) {
                                let size = layout.size.bytes() as usize;
                                let start = off.bytes() as usize;
                                let a = alloc.inner();
                                if start + size <= a.len() {
                                    let bytes = a.inspect_with_uninit_and_ptr_outside_interpreter(start..start + size);
                                    let mut v: u128 = 0;
                                    for (i, b) in bytes.iter().enumerate() { v |= (*b as u128) << (8 * i); }
                                    if matches!(inner.kind(), ty::Int(_)) {
                                        let sh = 128 - 8 * size as u32;
                                        let sv = ((v << sh) as i128) >> sh;
                                        val = format!("\"{}\"", sv);
                                    } else { val = format!("\"{}\"", v); }
                                }
                            }
                        }
                    }
                }
            }
        }
        // `[int; N]` constants (e.g. a table of shift amounts): the elements
        let mut elems = "null".to_string();
        if let ty::Array(inner, _) = t.kind() {
            if matches!(inner.kind(), ty::Int(_) | ty::Uint(_) | ty::Bool) {
                let env = TypingEnv::post_analysis(tcx, body.source.def_id());
                if let Ok(mir::ConstValue::Indirect { alloc_id, offset }) = c.const_.eval(tcx, env, c.span) {
                    if let Some(rustc_middle::mir::interpret::GlobalAlloc::Memory(alloc)) = tcx.try_get_global_alloc(alloc_id) {
                        if let (Ok(il), Ok(tl)) = (tcx.layout_of(env.as_query_input(*inner)), tcx.layout_of(env.as_query_input(t))) {
                            let size = il.size.bytes() as usize;
                            let total = tl.size.bytes() as usize;
                            let start = offset.bytes() as usize;
                            let a = alloc.inner();
                            if size > 0 && start + total <= a.len() && total / size <= 64 {
                                let bytes = a.inspect_with_uninit_and_ptr_outside_interpreter(start..start + total);
                                let mut vs: Vec<String> = Vec::new();
                                for k in 0..(total / size) {
                                    let mut v: u128 = 0;
                                    for i in 0..size { v |= (bytes[k * size + i] as u128) << (8 * i); }
                                    if matches!(inner.kind(), ty::Int(_)) {
                                        let sh = 128 - 8 * size as u32;
                                        let sv = ((v << sh) as i128) >> sh;
                                        vs.push(format!("\"{}\"", sv));
                                    } else { vs.push(format!("\"{}\"", v)); }
                                }
                                elems = format!("[{}]", vs.join(","));
                            }
                        }
                    }
                }
            }
        }
        let mut stat = "null".to_string();
        if let mir::Const::Val(mir::ConstValue::Scalar(rustc_middle::mir::interpret::Scalar::Ptr(ptr, _)), _) = c.const_ {
            if let Some(rustc_middle::mir::interpret::GlobalAlloc::Static(d)) = tcx.try_get_global_alloc(ptr.provenance.alloc_id()) {
                stat = esc(&tcx.def_path_str(d));
            }
        }
        format!("{{\"const\":{{\"ty\":{},\"val\":{},\"elems\":{},\"str\":{},\"fn\":{},\"cdef\":{},\"static\":{},\"s\":{}}}}}", self.ty(t), val, elems, strval, fnj, cdef, stat, esc(&format!("{}", c.const_)))
    }
    fn docflag(&self, did: DefId) -> &'static str {
        if did.is_local() { return "null"; }
        let mut doc = String::new();
        for a in self.tcx.get_all_attrs(did) { if let Some(d) = a.doc_str() { doc.push_str(d.as_str()); doc.push('\n'); } }
        // operator impls are usually documented on the impl block (`/// # Panics` above `impl Sub<..> for ..`)
        if let Some(imp) = self.tcx.impl_of_assoc(did) {
            for a in self.tcx.get_all_attrs(imp) { if let Some(d) = a.doc_str() { doc.push_str(d.as_str()); doc.push('\n'); } }
        }
        if doc.contains("# Panics") { "\"panics\"" } else if doc.is_empty() { "\"nodoc\"" } else { "\"nopanics\"" }
    }
    fn is_unsafe_fn(&self, did: DefId) -> bool {
        matches!(self.tcx.def_kind(did), DefKind::Fn | DefKind::AssocFn) && self.tcx.fn_sig(did).skip_binder().safety().is_unsafe()
    }
    fn callee(&self, body: &Body<'tcx>, did: DefId, args: ty::GenericArgsRef<'tcx>) -> String {
        let tcx = self.tcx;
        let a: Vec<String> = args.iter().map(|g| self.garg(g)).collect();
        let mut resolved = "null".to_string();
        let env = TypingEnv::post_analysis(tcx, body.source.def_id());
        if let Ok(Some(inst)) = Instance::try_resolve(tcx, env, did, args) {
            let rd = inst.def_id();
            if rd != did {
                let self_ty = tcx.impl_of_assoc(rd).map(|i| self.ty(tcx.type_of(i).instantiate_identity().skip_norm_wip())).unwrap_or("null".to_string());
                let ra: Vec<String> = inst.args.iter().map(|g| self.garg(g)).collect();
                resolved = format!("{{\"def\":{},\"krate\":{},\"impl_self\":{},\"args\":[{}],\"local\":{},\"unsafe\":{},\"doc\":{}}}",
                    esc(&tcx.def_path_str(rd)), esc(tcx.crate_name(rd.krate).as_str()), self_ty, ra.join(","), rd.is_local(), self.is_unsafe_fn(rd), self.docflag(rd));
            }
        }
        let trait_ = tcx.trait_of_assoc(did).map(|t| esc(&tcx.def_path_str(t))).unwrap_or("null".to_string());
        let impl_self = tcx.impl_of_assoc(did).map(|i| self.ty(tcx.type_of(i).instantiate_identity().skip_norm_wip())).unwrap_or("null".to_string());
        format!("{{\"def\":{},\"krate\":{},\"args\":[{}],\"trait\":{},\"impl_self\":{},\"unsafe\":{},\"local\":{},\"doc\":{},\"resolved\":{}}}",
            esc(&tcx.def_path_str(did)), esc(tcx.crate_name(did.krate).as_str()), a.join(","), trait_, impl_self, self.is_unsafe_fn(did), did.is_local(), self.docflag(did), resolved)
    }
    fn operand(&self, body: &Body<'tcx>, o: &Operand<'tcx>) -> String {
        match o {
            Operand::Copy(p) => format!("{{\"copy\":{}}}", self.place(body, p)),
            Operand::Move(p) => format!("{{\"move\":{}}}", self.place(body, p)),
            Operand::Constant(c) => self.constant(body, c),
            other => format!("{{\"otherop\":{}}}", esc(&format!("{:?}", other))),
        }
    }
    fn rvalue(&self, body: &Body<'tcx>, r: &Rvalue<'tcx>) -> String {
        match r {
            Rvalue::Use(o, ..) => format!("{{\"rv\":\"use\",\"x\":{}}}", self.operand(body, o)),
            Rvalue::Ref(_, bk, p) => format!("{{\"rv\":\"ref\",\"mut\":{},\"place\":{}}}", matches!(bk, BorrowKind::Mut { .. }), self.place(body, p)),
            Rvalue::RawPtr(k, p) => format!("{{\"rv\":\"rawptr\",\"kind\":{},\"place\":{}}}", esc(&format!("{:?}", k)), self.place(body, p)),
            Rvalue::Cast(k, o, t) => format!("{{\"rv\":\"cast\",\"kind\":{},\"x\":{},\"from\":{},\"to\":{}}}", esc(&format!("{:?}", k)), self.operand(body, o), self.ty(o.ty(body, self.tcx)), self.ty(*t)),
            Rvalue::BinaryOp(op, ops) => format!("{{\"rv\":\"bin\",\"op\":{},\"l\":{},\"r\":{}}}", esc(&format!("{:?}", op)), self.operand(body, &ops.0), self.operand(body, &ops.1)),
            Rvalue::UnaryOp(op, o) => format!("{{\"rv\":\"un\",\"op\":{},\"x\":{}}}", esc(&format!("{:?}", op)), self.operand(body, o)),
            Rvalue::Discriminant(p) => {
                let pty = p.ty(body, self.tcx).ty;
                let mut vs = Vec::new();
                if let ty::Adt(def, _) = pty.kind() {
                    if def.is_enum() {
                        for (vidx, d) in def.discriminants(self.tcx) {
                            vs.push(format!("[\"{}\",{}]", d.val, esc(def.variant(vidx).name.as_str())));
                        }
                    }
                }
                format!("{{\"rv\":\"discr\",\"place\":{},\"variants\":[{}]}}", self.place(body, p), vs.join(","))
            }
            Rvalue::Aggregate(kind, fields) => {
                let fs: Vec<String> = fields.iter().map(|o| self.operand(body, o)).collect();
                let k = match &**kind {
                    AggregateKind::Array(t) => format!("\"kind\":\"array\",\"elem\":{}", self.ty(*t)),
                    AggregateKind::Tuple => "\"kind\":\"tuple\"".to_string(),
                    AggregateKind::Adt(did, vidx, args, _, _) => {
                        let def = self.tcx.adt_def(*did);
                        let v = def.variant(*vidx);
                        let names: Vec<String> = v.fields.iter().map(|f| esc(f.name.as_str())).collect();
                        let a: Vec<String> = args.iter().map(|g| self.garg(g)).collect();
                        format!("\"kind\":\"adt\",\"adt\":{},\"variant\":{},\"vidx\":{},\"fnames\":[{}],\"args\":[{}]", esc(&self.tcx.def_path_str(*did)), esc(v.name.as_str()), vidx.as_u32(), names.join(","), a.join(","))
                    }
                    AggregateKind::Closure(did, _) => format!("\"kind\":\"closure\",\"def\":{}", esc(&self.tcx.def_path_str(*did))),
                    other => format!("\"kind\":\"other\",\"s\":{}", esc(&format!("{:?}", other))),
                };
                format!("{{\"rv\":\"agg\",{},\"fields\":[{}]}}", k, fs.join(","))
            }
            Rvalue::CopyForDeref(p) => format!("{{\"rv\":\"use\",\"x\":{{\"copy\":{}}}}}", self.place(body, p)),
            Rvalue::Repeat(o, n) => format!("{{\"rv\":\"repeat\",\"x\":{},\"n\":{}}}", self.operand(body, o), esc(&format!("{:?}", n))),
            other => format!("{{\"rv\":\"other\",\"s\":{}}}", esc(&format!("{:?}", other))),
        }
    }
    fn body(&self, did: DefId, out: &mut String) {
        let tcx = self.tcx;
        let body: &Body<'tcx> = tcx.optimized_mir(did);
        let mut locals = Vec::new();
        let mut names = std::collections::HashMap::new();
        for vdi in &body.var_debug_info {
            if let VarDebugInfoContents::Place(p) = &vdi.value { if p.projection.is_empty() { names.insert(p.local, vdi.name.to_string()); } }
        }
        for (l, d) in body.local_decls.iter_enumerated() {
            locals.push(format!("{{\"ty\":{},\"name\":{}}}", self.ty(d.ty), names.get(&l).map(|n| esc(n)).unwrap_or("null".to_string())));
        }
        let mut blocks = Vec::new();
        for (_bb, data) in body.basic_blocks.iter_enumerated() {
            let mut stmts = Vec::new();
            for st in &data.statements {
                match &st.kind {
                    StatementKind::Assign(b) => {
                        let (p, r) = &**b;
                        stmts.push(format!("{{\"k\":\"assign\",\"place\":{},\"rv\":{},\"span\":{}}}", self.place(body, p), self.rvalue(body, r), self.span(st.source_info.span)));
                    }
                    StatementKind::SetDiscriminant { place, variant_index } => stmts.push(format!("{{\"k\":\"setdiscr\",\"place\":{},\"v\":{}}}", self.place(body, place), variant_index.as_u32())),
                    StatementKind::StorageLive(_) | StatementKind::StorageDead(_) | StatementKind::Nop | StatementKind::FakeRead(..) | StatementKind::AscribeUserType(..) | StatementKind::Coverage(..) | StatementKind::PlaceMention(..) | StatementKind::ConstEvalCounter | StatementKind::BackwardIncompatibleDropHint { .. } => {}
                    other => stmts.push(format!("{{\"k\":\"other\",\"s\":{}}}", esc(&format!("{:?}", other)))),
                }
            }
            let term = data.terminator();
            let sp = self.span(term.source_info.span);
            let t = match &term.kind {
                TerminatorKind::Goto { target } => format!("{{\"k\":\"goto\",\"t\":{}}}", target.as_u32()),
                TerminatorKind::SwitchInt { discr, targets } => {
                    let ts: Vec<String> = targets.iter().map(|(v, b)| format!("[\"{}\",{}]", v, b.as_u32())).collect();
                    format!("{{\"k\":\"switch\",\"op\":{},\"targets\":[{}],\"otherwise\":{},\"span\":{}}}", self.operand(body, discr), ts.join(","), targets.otherwise().as_u32(), sp)
                }
                TerminatorKind::Call { func, args, destination, target, .. } => {
                    let fty = func.ty(body, tcx);
                    let callee = match fty.kind() { ty::FnDef(d, a) => self.callee(body, *d, a), _ => format!("{{\"indirect\":{}}}", self.operand(body, func)) };
                    let a: Vec<String> = args.iter().map(|s| self.operand(body, &s.node)).collect();
                    format!("{{\"k\":\"call\",\"callee\":{},\"args\":[{}],\"dest\":{},\"t\":{},\"span\":{}}}", callee, a.join(","), self.place(body, destination), target.map(|t| t.as_u32().to_string()).unwrap_or("null".to_string()), sp)
                }
                TerminatorKind::Assert { cond, expected, msg, target, .. } => {
                    let (kind, ops): (String, Vec<String>) = match &**msg {
                        AssertKind::BoundsCheck { len, index } => ("BoundsCheck".into(), vec![self.operand(body, len), self.operand(body, index)]),
                        AssertKind::Overflow(op, a, b) => (format!("Overflow({:?})", op), vec![self.operand(body, a), self.operand(body, b)]),
                        AssertKind::OverflowNeg(a) => ("OverflowNeg".into(), vec![self.operand(body, a)]),
                        AssertKind::DivisionByZero(a) => ("DivisionByZero".into(), vec![self.operand(body, a)]),
                        AssertKind::RemainderByZero(a) => ("RemainderByZero".into(), vec![self.operand(body, a)]),
                        other => (format!("{:?}", other), vec![]),
                    };
                    format!("{{\"k\":\"assert\",\"cond\":{},\"expected\":{},\"kind\":{},\"ops\":[{}],\"t\":{},\"span\":{}}}", self.operand(body, cond), expected, esc(&kind), ops.join(","), target.as_u32(), sp)
                }
                TerminatorKind::Drop { place, target, .. } => format!("{{\"k\":\"drop\",\"place\":{},\"t\":{}}}", self.place(body, place), target.as_u32()),
                TerminatorKind::Return => "{\"k\":\"return\"}".to_string(),
                TerminatorKind::Unreachable => "{\"k\":\"unreachable\"}".to_string(),
                TerminatorKind::UnwindResume => "{\"k\":\"resume\"}".to_string(),
                TerminatorKind::FalseEdge { real_target, .. } => format!("{{\"k\":\"goto\",\"t\":{}}}", real_target.as_u32()),
                TerminatorKind::FalseUnwind { real_target, .. } => format!("{{\"k\":\"goto\",\"t\":{}}}", real_target.as_u32()),
                other => format!("{{\"k\":\"other\",\"s\":{}}}", esc(&format!("{:?}", other))),
            };
            blocks.push(format!("{{\"stmts\":[{}],\"term\":{},\"cleanup\":{}}}", stmts.join(","), t, data.is_cleanup));
        }
        let impl_info = match tcx.impl_of_assoc(did) {
            Some(i) => {
                let tr = tcx.impl_opt_trait_ref(i).map(|t| esc(&tcx.def_path_str(t.skip_binder().def_id))).unwrap_or("null".to_string());
                format!("{{\"trait\":{},\"self\":{}}}", tr, self.ty(tcx.type_of(i).instantiate_identity().skip_norm_wip()))
            }
            None => "null".to_string(),
        };
        let is_fn = matches!(tcx.def_kind(did), DefKind::Fn | DefKind::AssocFn);
        let vis = if is_fn { esc(&format!("{:?}", tcx.visibility(did))) } else { "null".to_string() };
        let in_trait = tcx.trait_of_assoc(did).map(|t| esc(&tcx.def_path_str(t))).unwrap_or("null".to_string());
        let root = tcx.typeck_root_def_id(did);
        let preds: Vec<String> = tcx.predicates_of(root).instantiate_identity(tcx).predicates.iter().map(|p| esc(&format!("{:?}", p))).collect();
        // unsafe blocks written by the user in this body (HIR)
        let mut ub = UnsafeBlocks { spans: Vec::new() };
        if let Some(ldid) = did.as_local() {
            if let Some(hbody) = tcx.hir_maybe_body_owned_by(ldid) {
                rustc_hir::intravisit::Visitor::visit_expr(&mut ub, hbody.value);
            }
        }
        let idargs: Vec<String> = ty::GenericArgs::identity_for_item(tcx, did).iter().map(|g| self.garg(g)).collect();
        let ubs: Vec<String> = ub.spans.iter().map(|(sp, user)| format!("{{\"span\":{},\"user\":{}}}", self.span(*sp), user)).collect();
        // signature with regions (MIR types are region-erased): own lifetime parameters, inputs and output as printed types
        let sig = if is_fn {
            let fs = tcx.fn_sig(did).instantiate_identity().skip_norm_wip().skip_binder();
            let lts: Vec<String> = tcx.generics_of(did).own_params.iter()
                .filter(|p| matches!(p.kind, ty::GenericParamDefKind::Lifetime)).map(|p| esc(&p.name.to_string())).collect();
            let ins: Vec<String> = fs.inputs().iter().map(|t| esc(&format!("{:?}", t))).collect();
            format!("{{\"lifetimes\":[{}],\"inputs\":[{}],\"output\":{}}}", lts.join(","), ins.join(","), esc(&format!("{:?}", fs.output())))
        } else { "null".to_string() };
        let _ = write!(out, "{{\"def\":{},\"kind\":{},\"impl\":{},\"in_trait\":{},\"root\":{},\"vis\":{},\"unsafe_fn\":{},\"sig\":{},\"preds\":[{}],\"generics\":[{}],\"unsafe_blocks\":[{}],\"span\":{},\"arg_count\":{},\"locals\":[{}],\"blocks\":[{}]}}",
            esc(&tcx.def_path_str(did)), esc(&format!("{:?}", tcx.def_kind(did))), impl_info, in_trait, esc(&tcx.def_path_str(root)), vis, self.is_unsafe_fn(did), sig, preds.join(","), idargs.join(","), ubs.join(","),
            self.span(tcx.def_span(did)), body.arg_count, locals.join(","), blocks.join(","));
    }

    fn items(&self) -> String {
        let tcx = self.tcx;
        let mut adts = Vec::new();
        let mut impls = Vec::new();
        let mut statics = Vec::new();
        let mut consts = Vec::new();
        let mut traits = Vec::new();
        for id in tcx.hir_free_items() {
            let did = id.owner_id.to_def_id();
            match tcx.def_kind(did) {
                DefKind::Struct | DefKind::Enum | DefKind::Union => {
                    let def = tcx.adt_def(did);
                    let mut vs = Vec::new();
                    for v in def.variants() {
                        let fs: Vec<String> = v.fields.iter().map(|f| format!("{{\"name\":{},\"ty\":{},\"vis\":{}}}", esc(f.name.as_str()), self.ty(tcx.type_of(f.did).instantiate_identity().skip_norm_wip()), esc(&format!("{:?}", f.vis)))).collect();
                        vs.push(format!("{{\"name\":{},\"fields\":[{}]}}", esc(v.name.as_str()), fs.join(",")));
                    }
                    adts.push(format!("{{\"path\":{},\"kind\":{},\"vis\":{},\"variants\":[{}],\"span\":{}}}", esc(&tcx.def_path_str(did)), esc(&format!("{:?}", tcx.def_kind(did))), esc(&format!("{:?}", tcx.visibility(did))), vs.join(","), self.span(tcx.def_span(did))));
                }
                DefKind::Impl { of_trait } => {
                    let tr = if of_trait { tcx.impl_opt_trait_ref(did).map(|t| esc(&format!("{:?}", t.skip_binder()))).unwrap_or("null".to_string()) } else { "null".to_string() };
                    let trp = if of_trait { tcx.impl_opt_trait_ref(did).map(|t| esc(&tcx.def_path_str(t.skip_binder().def_id))).unwrap_or("null".to_string()) } else { "null".to_string() };
                    let selfty = self.ty(tcx.type_of(did).instantiate_identity().skip_norm_wip());
                    let methods: Vec<String> = tcx.associated_items(did).in_definition_order().map(|a| esc(a.name().as_str())).collect();
                    let preds: Vec<String> = tcx.predicates_of(did).instantiate_identity(tcx).predicates.iter().map(|p| esc(&format!("{:?}", p))).collect();
                    let unsafe_impl = if of_trait { tcx.impl_trait_header(did).safety.is_unsafe() } else { false };
                    let sp = tcx.def_span(did);
                    impls.push(format!("{{\"trait\":{},\"trait_ref\":{},\"self\":{},\"items\":[{}],\"preds\":[{}],\"unsafe\":{},\"span\":{}}}", trp, tr, selfty, methods.join(","), preds.join(","), unsafe_impl, self.span(sp)));
                }
                DefKind::Static { mutability, .. } => {
                    let t = tcx.type_of(did).instantiate_identity().skip_norm_wip();
                    let env = TypingEnv::post_analysis(tcx, did);
                    let freeze = t.is_freeze(tcx, env);
                    statics.push(format!("{{\"path\":{},\"ty\":{},\"mut\":{},\"freeze\":{},\"span\":{}}}", esc(&tcx.def_path_str(did)), self.ty(t), mutability.is_mut(), freeze, self.span(tcx.def_span(did))));
                }
                DefKind::Const { .. } => {
                    let t = tcx.type_of(did).instantiate_identity().skip_norm_wip();
                    let mut val = "null".to_string();
                    if let Ok(v) = tcx.const_eval_poly(did) {
                        if let Some(si) = v.try_to_scalar_int() {
                            let size = si.size();
                            let bits = si.to_bits(size);
                            if matches!(t.kind(), ty::Int(_)) { val = format!("\"{}\"", size.sign_extend(bits) as i128); } else { val = format!("\"{}\"", bits); }
                        }
                    }
                    consts.push(format!("{{\"path\":{},\"ty\":{},\"val\":{}}}", esc(&tcx.def_path_str(did)), self.ty(t), val));
                }
                DefKind::Trait => {
                    let items: Vec<String> = tcx.associated_items(did).in_definition_order().map(|a| format!("{{\"name\":{},\"provided\":{}}}", esc(a.name().as_str()), a.defaultness(tcx).has_value())).collect();
                    traits.push(format!("{{\"path\":{},\"items\":[{}]}}", esc(&tcx.def_path_str(did)), items.join(",")));
                }
                _ => {}
            }
        }
        format!("{{\"adts\":[{}],\"impls\":[{}],\"statics\":[{}],\"consts\":[{}],\"traits\":[{}]}}", adts.join(","), impls.join(",\n"), statics.join(","), consts.join(","), traits.join(","))
    }
}

struct UnsafeBlocks { spans: Vec<(Span, bool)> }
impl<'v> rustc_hir::intravisit::Visitor<'v> for UnsafeBlocks {
    fn visit_block(&mut self, b: &'v rustc_hir::Block<'v>) {
        if let rustc_hir::BlockCheckMode::UnsafeBlock(src) = b.rules {
            self.spans.push((b.span, matches!(src, rustc_hir::UnsafeSource::UserProvided)));
        }
        rustc_hir::intravisit::walk_block(self, b);
    }
}

struct Cb;
impl rustc_driver::Callbacks for Cb {
    fn after_analysis<'tcx>(&mut self, _c: &rustc_interface::interface::Compiler, tcx: TyCtxt<'tcx>) -> Compilation {
        if std::env::var("CARGO_PRIMARY_PACKAGE").is_err() { return Compilation::Continue; }
        let outdir = match std::env::var("MIRDUMP_OUT") { Ok(d) => d, Err(_) => return Compilation::Continue };
        let krate = tcx.crate_name(rustc_hir::def_id::LOCAL_CRATE).to_string();
        let cx = Cx { tcx };
        rustc_middle::ty::print::with_no_visible_paths!(rustc_middle::ty::print::with_resolve_crate_name!(rustc_middle::ty::print::with_no_trimmed_paths!(self.dump(tcx, &cx, &outdir, &krate))));
        Compilation::Continue
    }
}
impl Cb {
    fn dump<'tcx>(&self, tcx: TyCtxt<'tcx>, cx: &Cx<'tcx>, outdir: &str, krate: &str) {
        let mut bodies = Vec::new();
        for def in tcx.mir_keys(()) {
            let did = def.to_def_id();
            if !matches!(tcx.def_kind(did), DefKind::Fn | DefKind::AssocFn | DefKind::Closure) { continue; }
            let mut s = String::new();
            cx.body(did, &mut s);
            bodies.push(s);
        }
        let is_test = tcx.sess.opts.test;
        let cfgs: Vec<String> = tcx.sess.config.iter().filter(|(k, _)| k.as_str() == "feature" || k.as_str() == "test" || k.as_str().contains("verif")).map(|(k, v)| esc(&format!("{}={}", k, v.map(|x| x.to_string()).unwrap_or_default()))).collect();
        let ctypes: Vec<String> = tcx.crate_types().iter().map(|c| esc(&format!("{:?}", c))).collect();
        let src = tcx.sess.local_crate_source_file().map(|f| esc(&format!("{:?}", f))).unwrap_or("null".to_string());
        let text = format!("{{\"crate\":{},\"test\":{},\"cfg\":[{}],\"crate_types\":[{}],\"src\":{},\"items\":{},\"bodies\":[\n{}\n]}}\n", esc(&krate), is_test, cfgs.join(","), ctypes.join(","), src, cx.items(), bodies.join(",\n"));
        let path = format!("{}/{}{}-{}.json", outdir, krate, if is_test { "-test" } else { "" }, std::process::id());
        std::fs::write(path, text).unwrap();
    }
}

fn main() {
    let mut args: Vec<String> = std::env::args().collect();
    args.remove(1);
    let mut cb = Cb;
    rustc_driver::run_compiler(&args, &mut cb);
}

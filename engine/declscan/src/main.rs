//! declscan: reads Rust sources with syn and prints, as JSON,
//!   * every type deriving BinaryCodec with its derive helper attributes (these are not present in HIR), and
//!   * for `--macrolint <file>`: every `quote!` body with the panicking constructs it contains.
use proc_macro2::{TokenStream, TokenTree};
use quote::ToTokens;
use std::fmt::Write as _;
use syn::visit::Visit;

fn esc(s: &str) -> String {
    let mut o = String::with_capacity(s.len() + 2);
    o.push('"');
    for c in s.chars() {
        match c {
            '"' => o.push_str("\\\""),
            '\\' => o.push_str("\\\\"),
            '\n' => o.push_str("\\n"),
            '\t' => o.push_str("\\t"),
            '\r' => o.push_str("\\r"),
            c if (c as u32) < 0x20 => {
                let _ = write!(o, "\\u{:04x}", c as u32);
            }
            c => o.push(c),
        }
    }
    o.push('"');
    o
}

fn toks<T: ToTokens>(t: &T) -> String {
    t.to_token_stream().to_string()
}

fn derives_codec(attrs: &[syn::Attribute]) -> bool {
    for a in attrs {
        if a.path().is_ident("derive") {
            let mut found = false;
            let _ = a.parse_nested_meta(|m| {
                if m.path.segments.last().map(|s| s.ident == "BinaryCodec").unwrap_or(false) {
                    found = true;
                }
                Ok(())
            });
            if found {
                return true;
            }
        }
    }
    false
}

fn evolution(attrs: &[syn::Attribute]) -> String {
    let mut steps = Vec::new();
    for a in attrs {
        if a.path().is_ident("evolution") {
            if let Ok(nested) = a.parse_args_with(syn::punctuated::Punctuated::<syn::Meta, syn::Token![,]>::parse_terminated) {
                for m in nested {
                    if let syn::Meta::List(l) = m {
                        let kind = l.path.get_ident().map(|i| i.to_string()).unwrap_or_default();
                        let args = l
                            .parse_args_with(syn::punctuated::Punctuated::<syn::Expr, syn::Token![,]>::parse_terminated)
                            .map(|p| p.into_iter().collect::<Vec<_>>())
                            .unwrap_or_default();
                        let name = match args.first() {
                            Some(syn::Expr::Lit(syn::ExprLit { lit: syn::Lit::Str(s), .. })) => s.value(),
                            _ => String::new(),
                        };
                        let default = args.get(1).map(|e| esc(&toks(e))).unwrap_or("null".to_string());
                        let (dl, dc) = args.get(1).map(|e| { let s = syn::spanned::Spanned::span(e).start(); (s.line, s.column) }).unwrap_or((0, 0));
                        steps.push(format!("{{\"kind\":{},\"name\":{},\"default\":{},\"default_line\":{},\"default_col\":{}}}", esc(&kind), esc(&name), default, dl, dc));
                    }
                }
            }
        }
    }
    format!("[{}]", steps.join(","))
}

fn has_attr(attrs: &[syn::Attribute], name: &str) -> bool {
    attrs.iter().any(|a| a.path().is_ident(name))
}

fn option_spelling(ty: &syn::Type) -> bool {
    // the documented detection: the path is spelled `Option`, `std::option::Option` or `core::option::Option`
    match ty {
        syn::Type::Group(g) => option_spelling(&g.elem),
        syn::Type::Paren(p) => option_spelling(&p.elem),
        syn::Type::Path(tp) if tp.qself.is_none() => {
            let ids: Vec<String> = tp.path.segments.iter().map(|s| s.ident.to_string()).collect();
            ids == ["Option"] || ids == ["std", "option", "Option"] || ids == ["core", "option", "Option"]
        }
        _ => false,
    }
}

fn fields(fs: &syn::Fields) -> String {
    let mut out = Vec::new();
    for (n, f) in fs.iter().enumerate() {
        let name = f.ident.as_ref().map(|i| i.to_string()).unwrap_or(format!("field{}", n));
        let mut transient = "null".to_string();
        let mut tl = 0;
        for a in &f.attrs {
            if a.path().is_ident("transient") {
                if let Ok(args) = a.parse_args_with(syn::punctuated::Punctuated::<syn::Expr, syn::Token![,]>::parse_terminated) {
                    if let Some(e) = args.first() {
                        transient = esc(&toks(e));
                        tl = syn::spanned::Spanned::span(e).start().line;
                    }
                }
            }
        }
        out.push(format!(
            "{{\"name\":{},\"named\":{},\"ty\":{},\"option\":{},\"transient\":{},\"transient_line\":{}}}",
            esc(&name), f.ident.is_some(), esc(&toks(&f.ty)), option_spelling(&f.ty), transient, tl
        ));
    }
    format!("[{}]", out.join(","))
}

struct V {
    file: String,
    out: Vec<String>,
}

impl<'ast> Visit<'ast> for V {
    fn visit_item_struct(&mut self, i: &'ast syn::ItemStruct) {
        self.push_struct(i);
        syn::visit::visit_item_struct(self, i);
    }
    fn visit_item_enum(&mut self, i: &'ast syn::ItemEnum) {
        self.push_enum(i);
        syn::visit::visit_item_enum(self, i);
    }
    fn visit_item_macro(&mut self, i: &'ast syn::ItemMacro) {
        // `via_ty! { <item> }`: a declaration handed through a macro_rules macro that matches its field types as `$t:ty`
        // fragments and re-emits the item unchanged (the derive then sees the types wrapped in invisible groups)
        if i.mac.path.is_ident("via_ty") {
            if let Ok(st) = syn::parse2::<syn::ItemStruct>(i.mac.tokens.clone()) {
                self.push_struct(&st);
            } else if let Ok(en) = syn::parse2::<syn::ItemEnum>(i.mac.tokens.clone()) {
                self.push_enum(&en);
            }
        }
        syn::visit::visit_item_macro(self, i);
    }
}

impl V {
    fn push_struct(&mut self, i: &syn::ItemStruct) {
        if derives_codec(&i.attrs) {
            let shape = match &i.fields { syn::Fields::Named(_) => "named", syn::Fields::Unnamed(_) => "tuple", syn::Fields::Unit => "unit" };
            self.out.push(format!(
                "{{\"kind\":\"struct\",\"name\":{},\"file\":{},\"line\":{},\"shape\":{},\"generics\":{},\"evolution\":{},\"fields\":{}}}",
                esc(&i.ident.to_string()), esc(&self.file), i.ident.span().start().line, esc(shape), esc(&toks(&i.generics)), evolution(&i.attrs), fields(&i.fields)
            ));
        }
    }
    fn push_enum(&mut self, i: &syn::ItemEnum) {
        if derives_codec(&i.attrs) {
            let mut vs = Vec::new();
            for v in &i.variants {
                let shape = match &v.fields { syn::Fields::Named(_) => "named", syn::Fields::Unnamed(_) => "tuple", syn::Fields::Unit => "unit" };
                vs.push(format!(
                    "{{\"name\":{},\"shape\":{},\"transient\":{},\"evolution\":{},\"fields\":{}}}",
                    esc(&v.ident.to_string()), esc(shape), has_attr(&v.attrs, "transient"), evolution(&v.attrs), fields(&v.fields)
                ));
            }
            self.out.push(format!(
                "{{\"kind\":\"enum\",\"name\":{},\"file\":{},\"line\":{},\"generics\":{},\"sorted\":{},\"evolution\":{},\"variants\":[{}]}}",
                esc(&i.ident.to_string()), esc(&self.file), i.ident.span().start().line, esc(&toks(&i.generics)), has_attr(&i.attrs, "sorted_constructors"), evolution(&i.attrs), vs.join(",")
            ));
        }
    }
}

// ---------------------------------------------------------------------------------------------- macrolint
const BANG: &[&str] = &["unreachable", "panic", "todo", "unimplemented", "assert", "assert_eq", "assert_ne", "debug_assert", "debug_assert_eq", "debug_assert_ne"];
const METHODS: &[&str] = &["unwrap", "expect", "unwrap_unchecked"];

fn lint_tokens(ts: TokenStream, found: &mut Vec<String>) {
    let v: Vec<TokenTree> = ts.into_iter().collect();
    for i in 0..v.len() {
        match &v[i] {
            TokenTree::Ident(id) => {
                let s = id.to_string();
                if BANG.contains(&s.as_str()) {
                    if let Some(TokenTree::Punct(p)) = v.get(i + 1) {
                        if p.as_char() == '!' {
                            found.push(format!("{}!", s));
                        }
                    }
                }
                if METHODS.contains(&s.as_str()) && i > 0 {
                    if let (TokenTree::Punct(p), Some(TokenTree::Group(_))) = (&v[i - 1], v.get(i + 1)) {
                        if p.as_char() == '.' {
                            found.push(format!(".{}()", s));
                        }
                    }
                }
                if s == "unsafe" {
                    found.push("unsafe".to_string());
                }
            }
            TokenTree::Group(g) => lint_tokens(g.stream(), found),
            _ => {}
        }
    }
}

struct Q {
    out: Vec<String>,
    func: String,
}

impl<'ast> Visit<'ast> for Q {
    fn visit_item_fn(&mut self, f: &'ast syn::ItemFn) {
        let old = std::mem::replace(&mut self.func, f.sig.ident.to_string());
        syn::visit::visit_item_fn(self, f);
        self.func = old;
    }
    fn visit_macro(&mut self, m: &'ast syn::Macro) {
        if m.path.segments.last().map(|s| s.ident == "quote").unwrap_or(false) {
            let mut found = Vec::new();
            lint_tokens(m.tokens.clone(), &mut found);
            let fs: Vec<String> = found.iter().map(|s| esc(s)).collect();
            self.out.push(format!("{{\"fn\":{},\"line\":{},\"findings\":[{}]}}", esc(&self.func), m.path.segments[0].ident.span().start().line, fs.join(",")));
            // nested quote! invocations inside the token stream are part of this body's tokens (already linted)
        }
        syn::visit::visit_macro(self, m);
    }
}

fn main() {
    let args: Vec<String> = std::env::args().skip(1).collect();
    if args.first().map(|s| s == "--macrolint").unwrap_or(false) {
        let src = std::fs::read_to_string(&args[1]).expect("read");
        let file = syn::parse_file(&src).expect("parse");
        let mut q = Q { out: Vec::new(), func: String::new() };
        q.visit_file(&file);
        println!("{{\"file\":{},\"quotes\":[{}]}}", esc(&args[1]), q.out.join(","));
        return;
    }
    let mut all = Vec::new();
    let mut errors = Vec::new();
    for path in &args {
        match std::fs::read_to_string(path) {
            Ok(src) => match syn::parse_file(&src) {
                Ok(file) => {
                    let mut v = V { file: path.clone(), out: Vec::new() };
                    v.visit_file(&file);
                    all.extend(v.out);
                }
                Err(e) => errors.push(format!("{}: {}", path, e)),
            },
            Err(e) => errors.push(format!("{}: {}", path, e)),
        }
    }
    let es: Vec<String> = errors.iter().map(|e| esc(e)).collect();
    println!("{{\"decls\":[{}],\"errors\":[{}]}}", all.join(",\n"), es.join(","));
}

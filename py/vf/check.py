"""CLI: ./check <Cxx> [--tier quick|thorough] [--explain <violation.json>]"""
import argparse
import json
import os
import sys

from .core import Analysis, ExtractionFailed
from .report import Report
from . import props


def main():
    ap = argparse.ArgumentParser()
    ap.add_argument("prop")
    ap.add_argument("--tier", default=os.environ.get("VERIF_TIER", "quick"), choices=["quick", "thorough"])
    ap.add_argument("--explain", default=None)
    a = ap.parse_args()
    if a.explain:
        v = json.load(open(a.explain))
        print(json.dumps(v, indent=1))
        print("\nre-run `./check %s` on the current tree to see whether the violation persists." % v.get("property", a.prop))
        return 0
    if a.prop not in props.PROPS:
        print("unknown or unclaimed property %s" % a.prop)
        return 2
    spec = props.PROPS[a.prop]
    seed = int(os.environ.get("VERIF_SEED", "0") or 0)
    rep = Report(a.prop, a.tier, spec["level"], seed)
    an = Analysis(a.tier)
    rep.explanation = spec["explanation"]
    rep.assumptions = list(spec["assumptions"])
    rep.trusted_base = list(spec.get("trusted_base", []))
    for fn in spec["rules"]:
        try:
            fn(an, rep)
        except ExtractionFailed as e:
            which = "the declaration corpus of /verif does not compile against the current derive macro / library" \
                if "/corpus" in e.ws or "/witness" in e.ws or "gen-corpus" in e.ws else "the repository does not compile under the analysis driver"
            r = rep.rule("X0", "the analysed program builds: the repository itself and the harness crates (declaration corpus, "
                               "witnesses) compiled against it; a valid declaration for which the derive macro emits ill-typed "
                               "code is a defect of the macro")
            r.fail(os.path.basename(os.path.dirname(e.ws)) or e.ws, "build", "%s: %s" % (which, e.errors[:600]), None, e.errors)
            break
        except KeyError as e:
            r = rep.rule(getattr(fn, "__name__", "rule"), "anchor lookup")
            r.anchor_missing(str(e))
        except Exception as e:          # a rule that cannot analyse the tree fails closed with a located report
            import traceback
            r = rep.rule(getattr(fn, "__name__", "rule"), "internal")
            r.fail("<rule>", getattr(fn, "__name__", "rule"), "the rule could not analyse the current tree (%s: %s); fail closed" %
                   (type(e).__name__, e), None, traceback.format_exc()[-1500:])
    if a.tier == "thorough":
        for fn in spec.get("thorough", []):
            try:
                fn(an, rep)
            except ExtractionFailed as e:
                r = rep.rule("X0[thorough]", "the analysed program builds in every configuration of the thorough tier")
                r.fail(os.path.basename(os.path.dirname(e.ws)) or e.ws, "build", "does not compile: %s" % e.errors[:600], None, e.errors)
            except Exception as e:
                import traceback
                r = rep.rule(getattr(fn, "__name__", "rule"), "internal")
                r.fail("<rule>", getattr(fn, "__name__", "rule"), "the rule could not analyse the current tree (%s: %s); fail "
                       "closed" % (type(e).__name__, e), None, traceback.format_exc()[-1500:])
    rep.analysed = an.summary()
    return rep.finish()


if __name__ == "__main__":
    sys.exit(main())

"""Dominating branch conditions, interval evaluation and expression equality (solver-free discharge helpers)."""
import re
from . import mir

INT_RANGES = {
    "u8": (0, 2**8 - 1), "u16": (0, 2**16 - 1), "u32": (0, 2**32 - 1), "u64": (0, 2**64 - 1),
    "u128": (0, 2**128 - 1), "usize": (0, 2**64 - 1),
    "i8": (-2**7, 2**7 - 1), "i16": (-2**15, 2**15 - 1), "i32": (-2**31, 2**31 - 1), "i64": (-2**63, 2**63 - 1),
    "i128": (-2**127, 2**127 - 1), "isize": (-2**63, 2**63 - 1), "bool": (0, 1),
}
PURE_LEN = ("[T]::len", "Vec<T, A>::len", "str::len", "String::len", "Bytes::len", "[T; N]::len")


PURE = ("usize::saturating_sub", "Ord::min", "Ord::max", "<Vec<T, A> as Deref>::deref", "<String as Deref>::deref",
        "Vec<T, A>::is_empty", "[T]::is_empty", "HashSet<T, S, A>::contains", "HashMap<K, V, S, A>::get",
        "BTreeMap<K, V, A>::contains_key", "Option<T>::unwrap_or", "Result<T, E>::is_ok", "Result<T, E>::is_err",
        "Option<T>::is_some", "Option<T>::is_none", "<EMPTY_ADT_METADATA as Deref>::deref")


_INT = r"(?:u8|u16|u32|u64|u128|usize|i8|i16|i32|i64|i128|isize|bool|char)"
_PURE_RX = re.compile(r"^(?:%s::\w+|<%s as (?:From|TryFrom)<%s>>::(?:from|try_from)|Option<&?T>::(?:copied|cloned|unwrap_or_default|is_some_and)"
                      r"|HashMap<K, V, S, A>::contains_key|BTreeMap<K, V, A>::get|<\w+ as (?:Clone|Copy)>::clone)$" % (_INT, _INT, _INT))


def _pure(key):
    return key in PURE or key.endswith(("::len", "::as_bytes", "::as_str", "::as_slice", "::clone")) or bool(_PURE_RX.match(key))


def norm(e):
    """Normalise for structural comparison: refs/derefs dropped, len() calls unified, call-site ids dropped."""
    if not isinstance(e, tuple):
        return e
    k = e[0]
    if k in ("ref", "deref"):
        return norm(e[1])
    if k == "call" and len(e) > 4 and isinstance(e[4], int) and e[1] not in PURE_LEN and not _pure(e[1]):
        return ("call", e[1], tuple(norm(a) for a in e[3]), e[4])
    if k == "call":
        if e[1] in PURE_LEN and len(e[3]) == 1:
            return ("len", norm(e[3][0]))
        if e[1] in ("<Vec<T, A> as Deref>::deref", "<String as Deref>::deref", "<Bytes as Deref>::deref",
                    "[T; N]::as_slice", "String::as_bytes", "str::as_bytes", "String::as_str", "Vec<T, A>::as_slice",
                    "<Vec<T, A> as AsRef<[T]>>::as_ref", "<Vec<T, A> as Borrow<[T]>>::borrow"):
            return norm(e[3][0])
        return ("call", e[1], tuple(norm(a) for a in e[3]))
    if k == "len":
        return ("len", norm(e[1]))
    if k == "cast" and e[1] == "Unsize":
        return norm(e[4])
    if k == "field":
        return ("field", norm(e[1]), e[2])
    if k == "const":
        return ("const", e[2] if e[2] is not None else e[3])
    if k == "arg":
        return ("arg", e[1])
    if k == "phi":
        return ("phi", e[1])
    out = [k]
    for x in e[1:]:
        if isinstance(x, tuple):
            out.append(norm(x))
        elif isinstance(x, list):
            out.append(tuple(norm(y) for y in x))
        else:
            out.append(x)
    return tuple(out)


def same(a, b):
    return norm(a) == norm(b)


def int_ty(tystr):
    return tystr if tystr in INT_RANGES else None


# value ranges chrono documents for its accessors
DOCUMENTED_RANGES = {
    "Weekday::num_days_from_monday": (0, 6), "Weekday::number_from_monday": (1, 7), "Weekday::num_days_from_sunday": (0, 6),
    "Weekday::number_from_sunday": (1, 7), "Month::number_from_month": (1, 12),
}
_WIDEN = re.compile(r"^<(\w+) as From<(\w+)>>::from$")
COUNT_PRESERVING = ("Iterator::map", "Iterator::enumerate", "Iterator::rev", "Iterator::inspect", "Iterator::cloned",
                    "Iterator::copied", "Iterator::by_ref", "IntoIterator::into_iter", "Iterator::peekable")


def _iter_count(t, depth=0):
    """upper bound on the number of items of the collection / iterator term `t` when it is built from a range with bounded
    ends through count-preserving adaptors and collect(); None when unknown"""
    if depth > 30:
        return None
    while isinstance(t, tuple):
        if t[0] in ("ref", "deref", "ok", "try"):
            t = t[1]
        elif t[0] == "field" and isinstance(t[1], tuple) and t[1][0] == "variant" and t[1][2] in ("Continue", "Ok", "Some"):
            t = t[1][1]
        elif t[0] == "call" and (t[1].endswith("Try>::branch") or t[1] == "Iterator::collect" or t[1] in COUNT_PRESERVING or
                                 t[1].endswith(("as IntoIterator>::into_iter", "as Iterator>::collect"))) and t[3]:
            t = t[3][0]
        else:
            break
    if not isinstance(t, tuple):
        return None
    if t[0] == "call" and t[1].startswith("RangeInclusive<Idx>::new") and len(t[3]) == 2:
        lo, hi = rng(t[3][0], depth + 1), rng(t[3][1], depth + 1)
        if lo and hi:
            return max(0, hi[1] - lo[0] + 1)
    if t[0] == "agg" and t[1] == "adt" and t[2] == "core::ops::range::Range" and len(t[4]) == 2:
        lo, hi = rng(t[4][0], depth + 1), rng(t[4][1], depth + 1)
        if lo and hi:
            return max(0, hi[1] - lo[0])
    return None


def rng(e, depth=0):
    """Conservative interval of an integer expression, or None."""
    if not isinstance(e, tuple) or depth > 30:
        return None
    k = e[0]
    if k == "const":
        return (e[2], e[2]) if e[2] is not None else INT_RANGES.get(e[1])
    if k in ("arg", "phi"):
        return INT_RANGES.get(e[-1] if k == "arg" else e[2])
    if k == "field":
        if isinstance(e[1], tuple) and e[1][0] == "variant":
            r = rng(e[1], depth + 1)
            if r:
                return r
        return INT_RANGES.get(e[4]) if len(e) > 4 else None
    if k in ("ref", "deref"):
        return rng(e[1], depth + 1)
    if k == "cast":
        to = INT_RANGES.get(e[3])
        src = rng(e[4], depth + 1) or INT_RANGES.get(e[2])
        if to is None:
            return None
        if src and src[0] >= to[0] and src[1] <= to[1]:
            return src
        return to
    if k == "len":
        return (0, 2**63 - 1)
    if k == "bin":
        op = e[1]
        a, b = rng(e[2], depth + 1), rng(e[3], depth + 1)
        if op == "BitAnd":
            for x, y in ((a, b), (b, a)):
                if y and y[0] == y[1] and y[0] >= 0:
                    return (0, y[0])
            return None
        if a is None or b is None:
            return None
        if op in ("Add", "AddWithOverflow"):
            return (a[0] + b[0], a[1] + b[1])
        if op in ("Sub", "SubWithOverflow"):
            return (a[0] - b[1], a[1] - b[0])
        if op in ("Mul", "MulWithOverflow") and a[0] >= 0 and b[0] >= 0:
            return (a[0] * b[0], a[1] * b[1])
        if op == "Shr" and b[0] == b[1] and a[0] >= 0:
            return (a[0] >> b[0], a[1] >> b[0])
        return None
    if k == "variant":
        # an item of a literal array iterated directly: next(into_iter([c0, c1, ..])) as Some
        inner = e[1]
        while isinstance(inner, tuple) and inner[0] in ("ref", "deref"):
            inner = inner[1]
        if inner[0] == "call" and inner[1].endswith("as Iterator>::next") and e[2] == "Some":
            for x in inner[3]:
                y = x
                while isinstance(y, tuple) and y[0] in ("ref", "deref"):
                    y = y[1]
                if y[0] == "call" and y[1].endswith("IntoIterator>::into_iter") and y[3]:
                    arr = y[3][0]
                    if arr[0] == "agg" and arr[1] == "array":
                        rs = [rng(v, depth + 1) for v in arr[4]]
                        if rs and all(rs):
                            return (min(r[0] for r in rs), max(r[1] for r in rs))
        return None
    if k == "call":
        if e[1] in DOCUMENTED_RANGES:
            return DOCUMENTED_RANGES[e[1]]
        if e[1] in PURE_LEN:
            n = _iter_count(e[3][0], depth + 1) if e[3] else None
            return (0, n) if n is not None else (0, 2**63 - 1)
        m = _WIDEN.match(e[1])
        if m and m.group(2) in INT_RANGES and m.group(1) in INT_RANGES and e[3]:
            src = INT_RANGES[m.group(2)]
            dst = INT_RANGES[m.group(1)]
            if dst[0] <= src[0] and src[1] <= dst[1]:
                return rng(e[3][0], depth + 1) or src
        if e[1] in ("Ord::min", "min") and len(e[3]) == 2:
            a, b = rng(e[3][0], depth + 1), rng(e[3][1], depth + 1)
            cands = [x for x in (a, b) if x]
            if cands:
                return (min(x[0] for x in cands), min(x[1] for x in cands))
        return None
    return None


def edge_conditions(body, ex):
    """For each block: list of (cond_expr, value) facts that hold on entry, from dominating switch edges.
    value is an int (operand == value) or ('not', [values]) for the otherwise edge."""
    dom = mir.dominators(body)
    pr = mir.preds(body)
    facts_on_edge = {}   # target bb -> list of facts when target has the switch block as only predecessor
    for d in mir.reachable(body):
        t = body.blocks[d]["term"]
        if t["k"] != "switch":
            continue
        cond = ex.operand(t["op"])
        listed = [int(v) for v, _ in t["targets"]]
        for v, tb in t["targets"]:
            if pr[tb] == [d]:
                facts_on_edge.setdefault(tb, []).append((cond, int(v), d))
        ob = t["otherwise"]
        if pr[ob] == [d] and ob not in [tb for _, tb in t["targets"]]:
            facts_on_edge.setdefault(ob, []).append((cond, ("not", listed), d))
    res = {}
    for b in mir.reachable(body):
        fs = []
        for d in dom.get(b, ()):
            fs.extend(facts_on_edge.get(d, []))
        res[b] = fs
    return res


def truth(fact_value):
    """Truth value of a bool switch fact: True / False / None."""
    if isinstance(fact_value, int):
        return fact_value != 0
    if isinstance(fact_value, tuple) and fact_value[0] == "not":
        vals = fact_value[1]
        if vals == [0]:
            return True
        if vals == [1]:
            return False
    return None


def bool_atoms(cond, val):
    """Expand a bool fact into comparison atoms (op, a, b) known to be TRUE."""
    tv = truth(val)
    if tv is None:
        return []
    e = cond
    while isinstance(e, tuple) and e[0] == "un" and e[1] == "Not":
        e = e[2]
        tv = not tv
    if isinstance(e, tuple) and e[0] == "bin" and e[1] in ("Lt", "Le", "Gt", "Ge", "Eq", "Ne"):
        op = e[1]
        if not tv:
            op = {"Lt": "Ge", "Le": "Gt", "Gt": "Le", "Ge": "Lt", "Eq": "Ne", "Ne": "Eq"}[op]
        return [(op, e[2], e[3])]
    if isinstance(e, tuple) and e[0] == "call" and e[1] in ("Vec<T, A>::is_empty", "[T]::is_empty") and len(e[3]) == 1:
        return [("Eq" if tv else "Ne", ("len", e[3][0]), ("const", "usize", 0, "0", None, None))]
    return []


def implies_lt(atoms, a, b):
    """a < b follows syntactically from one atom."""
    for op, x, y in atoms:
        if op == "Lt" and same(x, a) and same(y, b):
            return True
        if op == "Gt" and same(x, b) and same(y, a):
            return True
    return False


def implies_nonzero(atoms, a):
    for op, x, y in atoms:
        for p, q in ((x, y), (y, x)):
            if same(p, a):
                r = rng(q)
                if op == "Ne" and r == (0, 0):
                    return True
                if op in ("Gt",) and p is x and r and r[0] >= 0:
                    return True
                if op in ("Lt",) and p is y and r and r[0] >= 0:
                    return True
    return False


def implies_nonneg(atoms, a):
    """a >= 0 follows from one atom (for signed a)."""
    for op, x, y in atoms:
        if same(x, a):
            r = rng(y)
            if r and op == "Ge" and r[0] >= 0:
                return True
            if r and op == "Gt" and r[0] >= -1:
                return True
        if same(y, a):
            r = rng(x)
            if r and op == "Le" and r[0] >= 0:
                return True
            if r and op == "Lt" and r[0] >= -1:
                return True
    return False


def fields_read(e):
    """set of field names read through a deref/arg base in an expression (for store interference)."""
    out = set()
    for x in mir.walk_expr(e):
        if x[0] == "field":
            out.add(x[2])
    return out


def stores_between(body, from_bb, to_bb):
    """Field names assigned (through any projection) in blocks on paths from from_bb to to_bb (exclusive of to_bb's
    own terminator), conservatively: all blocks reachable from from_bb that reach to_bb."""
    sc = mir.succs(body)
    pr = mir.preds(body)
    fwd = set()
    st = [from_bb]
    while st:
        b = st.pop()
        if b in fwd:
            continue
        fwd.add(b)
        if b != to_bb:
            st.extend(sc[b])
    bwd = set()
    st = [to_bb]
    while st:
        b = st.pop()
        if b in bwd:
            continue
        bwd.add(b)
        if b != from_bb:
            st.extend(pr[b])
    names = set()
    for b in fwd & bwd:
        for s in body.blocks[b]["stmts"]:
            if s["k"] == "assign" and s["place"]["proj"]:
                for p in s["place"]["proj"]:
                    if p["p"] == "field":
                        names.add(p["name"] or str(p["i"]))
        t = body.blocks[b]["term"]
        if t["k"] == "call" and b != to_bb:
            # a call that receives a &mut to the object may change its fields: be conservative only for dest
            if t["dest"]["proj"]:
                for p in t["dest"]["proj"]:
                    if p["p"] == "field":
                        names.add(p["name"] or str(p["i"]))
    return names

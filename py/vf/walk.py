"""Path-sensitive term walker over MIR (static path enumerator; no feasibility reasoning, no solver).

walk(body, crate=None, inline=()) -> list of Path.  A Path has
  .events : ordered list of
      ('call', site, key, base_key, defn, [arg terms], targs, result term)
      ('atom', cond term, value)                 value: int or ('not', [ints]);  cond may be ('discr', x, variants)
      ('store', place term, value term)
      ('assert', kind, [operand terms])
  .outcome: ('return', term) | ('panic', key) | ('loopback', header_bb) | ('diverge', key) | ('cutoff',)
Terms have the same shapes as mir.Expr nodes; call results are ('call', key, defn, args, site, targs) with a per-walk
unique site id so that two calls of the same function are different terms.
"""
import itertools
import re

from . import mir
from .mir import callee_info
from .guards import norm


# Functions that rules refer to by name (events / anchors): never inlined automatically.
ANCHORS = {
    "AdtDeserializer::invalid_constructor_id", "AdtDeserializer::new", "AdtDeserializer::new_v0",
    "AdtDeserializer::read_constructor", "AdtDeserializer::read_field", "AdtDeserializer::read_optional_field",
    "AdtDeserializer::read_or_get_constructor_idx", "AdtDeserializer::record_field_index", "AdtMetadata::new",
    "AdtSerializer<Output>::finish", "AdtSerializer<Output>::new", "AdtSerializer<Output>::new_v0",
    "AdtSerializer<Output>::record_field_index", "AdtSerializer<Output>::write_constructor",
    "AdtSerializer<Output>::write_evolution_header", "AdtSerializer<Output>::write_field",
    "DeserializationContext::new", "DeserializationContext::pop_region",
    "DeserializationContext::pos", "DeserializationContext::push_region", "DeserializationContext::try_read_ref",
    "DeserializationContext::state", "DeserializationContext::state_mut", "SerializationContext<Output>::state_mut",
    "FieldPosition::new", "FieldPosition::to_byte", "InputRegion::empty", "InputRegion::new", "RefId::next",
    "ResolvedInputRegion::unresolve", "SerializationContext<Output>::into_output", "SerializationContext<Output>::new",
    "SerializationContext<Output>::pop_buffer", "SerializationContext<Output>::push_buffer",
    "SerializationContext<Output>::store_ref_or_object", "State::get_ref_by_id", "State::get_string_by_id",
    "State::store_ref", "State::store_string", "StringId::next", "checked_naive_local", "deserialize",
    "deserialize_iterator", "serialize", "serialize_iterator", "serialize_to_byte_vec", "serialize_to_bytes",
}
LOOP_COMBINATORS = ("Iterator::try_for_each", "Iterator::for_each", "Iterator::try_fold", "Iterator::fold", "Iterator::all",
                    "Iterator::any")
CLOSURE_CALLS = ("FnOnce::call_once", "FnMut::call_mut", "Fn::call")


class Path:
    __slots__ = ("events", "outcome")

    def __init__(self, events, outcome):
        self.events = events
        self.outcome = outcome

    def calls(self, *keys):
        return [e for e in self.events if e[0] == "call" and (not keys or e[2] in keys or e[3] in keys)]

    def atoms(self):
        return [e for e in self.events if e[0] == "atom"]

    def stores(self):
        return [e for e in self.events if e[0] == "store"]

    def returns_err(self):
        return self.outcome[0] == "return" and is_err_term(self.outcome[1])

    def returns_ok(self):
        return self.outcome[0] == "return" and not is_err_term(self.outcome[1])


def is_err_term(t):
    """Result::Err aggregate, or a `?` residual conversion."""
    t = mir.strip_refs(t)
    if isinstance(t, tuple):
        if t[0] == "agg" and t[1] == "adt" and t[2] == "core::result::Result" and t[3] == "Err":
            return True
        if t[0] == "call" and t[1].endswith("::from_residual"):
            return True
        if t[0] == "errprop":
            return True
        if t[0] == "call" and t[1] in ("Option<T>::ok_or_else", "Result<T, E>::map_err"):
            return None
    return False


def err_variant(t):
    """Error::<Variant> name when the returned term is Err(Error::V{..}) (possibly through from_residual)."""
    t = mir.strip_refs(t)
    if isinstance(t, tuple) and t[0] == "agg" and t[2] == "core::result::Result" and t[3] == "Err" and t[4]:
        e = mir.strip_refs(t[4][0])
        if isinstance(e, tuple) and e[0] == "agg" and e[2] and e[2].endswith("::Error"):
            return e[3]
    return None


class Walker:
    def __init__(self, body, crate=None, inline=(), max_paths=3000, inline_depth=3, auto_inline=True):
        self.body = body
        self.crate = crate
        self.inline = set(inline)
        self.auto_inline = auto_inline
        self.max_paths = max_paths
        self.inline_depth = inline_depth
        self.sites = itertools.count(1)
        self.paths = []
        self.theta = {}          # type-parameter substitution of the body currently inlined (param 's' -> caller type)

    # ------------------------------------------------------------------------------------------- memory
    def _base(self, body, env, local):
        v = env.get(local)
        if v is not None:
            return v
        ty = body.locals[local]["ty"]["s"]
        if 1 <= local <= body.arg_count:
            return ("arg", local, body.locals[local]["name"], ty)
        return ("phi", local, ty)

    def read_place(self, body, env, p):
        cur = self._base(body, env, p["local"])
        mem = env["$mem"]
        for pr in p["proj"]:
            k = pr["p"]
            place = True         # the step builds a symbolic place (to be looked up in the path memory), not a value taken
            #                      out of an aggregate that was computed earlier (a snapshot that later stores do not change)
            if k == "deref":
                if cur[0] == "ref":
                    cur = cur[1]
                else:
                    cur = ("deref", cur)
            elif k == "field":
                if cur[0] == "agg" and cur[1] in ("tuple", "adt", "closure") and pr["i"] < len(cur[4]):
                    cur = cur[4][pr["i"]]
                    place = False
                elif cur[0] == "bin" and cur[1].endswith("WithOverflow"):
                    cur = ("bin", cur[1][:-12], cur[2], cur[3]) if pr["i"] == 0 else ("ovf", cur[1], cur[2], cur[3])
                    place = False
                elif cur[0] == "variant" and cur[1][0] == "agg" and cur[1][3] == cur[2] and pr["i"] < len(cur[1][4]):
                    cur = cur[1][4][pr["i"]]
                    place = False
                elif cur[0] == "variant" and cur[1][0] == "try" and pr["i"] == 0:
                    cur = ("ok", cur[1][1]) if cur[2] == "Continue" else ("residual", cur[1][1])
                    place = False
                else:
                    cur = ("field", cur, pr["name"] or str(pr["i"]), pr["i"], pr["ty"]["s"])
            elif k == "downcast":
                cur = ("variant", cur, pr["variant"])
            elif k == "index":
                cur = ("index", cur, self._base(body, env, pr["local"]))
            elif k == "constindex":
                cur = ("index", cur, ("const", "usize", pr["offset"], str(pr["offset"]), None, None))
            else:
                cur = ("unk", "proj:" + k)
            if mem and place:
                key = norm(cur)
                if key in mem:
                    cur = mem[key]
        return cur

    def write_place(self, body, env, p, val, events):
        if not p["proj"]:
            env[p["local"]] = val
            return
        # functional update of a local aggregate
        base = env.get(p["local"])
        projs = p["proj"]
        if base is not None and base[0] == "agg" and all(q["p"] == "field" for q in projs):
            env[p["local"]] = self._updated(base, projs, val)
            return
        # store through a pointer / into an opaque object: remember in the path-local memory
        target = self.read_place_noload(body, env, p)
        mem = dict(env["$mem"])
        k = norm(target)
        # invalidate entries that extend or are extended by this place
        for other in list(mem):
            if _prefix(k, other) or _prefix(other, k):
                del mem[other]
        mem[k] = val
        env["$mem"] = mem
        events.append(("store", target, val))

    def read_place_noload(self, body, env, p):
        saved = env["$mem"]
        env["$mem"] = {}
        try:
            return self.read_place(body, env, p)
        finally:
            env["$mem"] = saved

    def _updated(self, agg, projs, val):
        if not projs:
            return val
        i = projs[0]["i"]
        fs = list(agg[4])
        if i >= len(fs):
            return agg
        inner = fs[i]
        if len(projs) > 1 and not (inner[0] == "agg"):
            return agg
        fs[i] = self._updated(inner, projs[1:], val) if len(projs) > 1 else val
        return (agg[0], agg[1], agg[2], agg[3], fs)

    def operand(self, body, env, o):
        if "const" in o:
            c = o["const"]
            if c.get("fn"):
                return ("fn", mir.callee_key(c["fn"]), c["fn"])
            v = int(c["val"]) if c["val"] is not None else None
            if v is None and env.get("$ctheta") and c["s"] in env["$ctheta"]:
                v = env["$ctheta"][c["s"]]           # const generic of an inlined helper, bound by the caller
            t = ("const", c["ty"]["s"], v, c["s"], c.get("cdef"), c.get("str"))
            if c.get("static"):
                return ("static", c["static"])
            return t
        p = mir.op_place(o)
        if p is None:
            return ("unk", "operand")
        return self.read_place(body, env, p)

    def rvalue(self, body, env, rv):
        k = rv["rv"]
        if k == "use":
            return self.operand(body, env, rv["x"])
        if k in ("ref", "rawptr"):
            return ("ref", self.read_place(body, env, rv["place"]))
        if k == "cast":
            x = self.operand(body, env, rv["x"])
            kind = rv["kind"]
            if "PointerCoercion" in kind and "Unsize" in kind:
                kind = "Unsize"
            return ("cast", kind, rv["from"]["s"], rv["to"]["s"], x)
        if k == "bin":
            l, r = self.operand(body, env, rv["l"]), self.operand(body, env, rv["r"])
            return fold_bin(rv["op"], l, r)
        if k == "un":
            x = self.operand(body, env, rv["x"])
            if rv["op"] == "PtrMetadata":
                return ("len", x)
            if rv["op"] == "Not" and x[0] == "const" and x[2] is not None and x[1] == "bool":
                return ("const", "bool", 0 if x[2] else 1, "", None, None)
            return ("un", rv["op"], x)
        if k == "discr":
            x = self.read_place(body, env, rv["place"])
            if x[0] == "try":
                return ("discr", x, ((0, "Continue"), (1, "Break")))
            return ("discr", x, tuple((int(v), n) for v, n in rv.get("variants", [])))
        if k == "agg":
            fs = [self.operand(body, env, f) for f in rv["fields"]]
            kind = rv["kind"]
            if kind == "adt":
                return ("agg", "adt", rv["adt"], rv["variant"], fs)
            if kind == "closure":
                return ("agg", "closure", rv["def"], None, fs)
            return ("agg", kind, None, None, fs)
        if k == "repeat":
            return ("repeat", self.operand(body, env, rv["x"]), rv["n"])
        return ("unk", k)

    # ------------------------------------------------------------------------------------------- exploration
    def run(self, args=None):
        env = {"$mem": {}, "$dec": {}}
        if args:
            for i, a in enumerate(args):
                env[i + 1] = a
        self._explore(self.body, 0, env, [], (), 0, None)
        return self.paths

    def _finish(self, events, outcome, cont, env):
        """cont: continuation for inlined calls (callable taking (events, outcome term, env))."""
        if cont is not None and outcome[0] == "return":
            cont(events, outcome[1], env)
            return
        self.paths.append(Path(events, outcome))

    def _explore(self, body, bb, env, events, stack, depth, cont):
        while True:
            if len(self.paths) > self.max_paths:
                self.paths.append(Path(events, ("cutoff",)))
                return
            key = (id(body), bb)
            if key in stack:
                self._finish(events, ("loopback", bb), None, env)
                return
            stack = stack + (key,)
            blk = body.blocks[bb]
            for st in blk["stmts"]:
                if st["k"] == "assign":
                    rv_ = st["rv"]
                    if rv_["rv"] == "cast" and rv_.get("kind") == "Transmute" and any(u["user"] for u in body.unsafe_blocks) \
                            and not (rv_["from"].get("k") == "ptr" and rv_["to"].get("k") == "ptr") \
                            and not (rv_["from"].get("path", "").endswith("NonNull") and rv_["to"].get("k") == "ptr"):
                        th_ = env.get("$theta") or {}
                        events.append(("xmute", _subst_ty(rv_["from"], th_), _subst_ty(rv_["to"], th_), body.key))
                    self.write_place(body, env, st["place"], self.rvalue(body, env, st["rv"]), events)
            t = blk["term"]
            k = t["k"]
            if k in ("goto", "drop"):
                bb = t["t"]
                continue
            if k == "assert":
                events.append(("assert", t["kind"], [self.operand(body, env, o) for o in t["ops"]]))
                bb = t["t"]
                continue
            if k == "return":
                self._finish(events, ("return", self._base(body, env, 0)), cont, env)
                return
            if k in ("unreachable", "resume"):
                self._finish(events, ("diverge", k), None, env)
                return
            if k == "call":
                info = callee_info(t["callee"])
                theta = env.get("$theta")
                if theta:
                    info = dict(info, targs=[_subst_ty(x, theta) for x in info["targs"]])
                args = [self.operand(body, env, a) for a in t["args"]]
                if mir.is_panic_callee(info["def"]):
                    events.append(("call", next(self.sites), info["key"], info["base_key"], info["def"], args, info["targs"], None))
                    self._finish(events, ("panic", info["key"]), None, env)
                    return
                # a `for` over a literal array of at most 8 elements is unrolled: into_iter([e0, e1, ..]) is a counted
                # iterator, next() yields e0, e1, .. and then None
                if info["key"] == "<[T; N] as IntoIterator>::into_iter" and args:
                    a0 = mir.strip_refs(args[0]) if args[0][0] == "ref" else args[0]
                    if a0[0] == "agg" and a0[1] == "array" and len(a0[4]) <= 8:
                        site = next(self.sites)
                        self.write_place(body, env, t["dest"], ("arrit", site, tuple(a0[4])), events)
                        bb = t["t"]
                        continue
                if info["key"] == "<IntoIter<T, N> as Iterator>::next" and args:
                    a0 = mir.strip_refs(args[0])
                    if a0[0] == "arrit":
                        pos = dict(env.get("$arrit") or {})
                        i = pos.get(a0[1], 0)
                        pos[a0[1]] = i + 1
                        env["$arrit"] = pos
                        if i < len(a0[2]):
                            val = ("agg", "adt", "core::option::Option", "Some", [a0[2][i]])
                        else:
                            val = ("agg", "adt", "core::option::Option", "None", [])
                        if i <= len(a0[2]):
                            stack = tuple(k_ for k_ in stack if k_[0] != id(body))     # the loop may be entered / left again
                        self.write_place(body, env, t["dest"], val, events)
                        bb = t["t"]
                        continue
                # inlining: selected helpers, private non-anchor local helpers, directly invoked local closures
                callee = None
                cargs = args
                if self.crate is not None and depth < self.inline_depth:
                    cand = self.crate.bodies.get(info["def"]) if info["def"] else None
                    if cand is not None and (info["key"] in self.inline or info["base_key"] in self.inline):
                        callee = cand
                    elif cand is not None and self.auto_inline and self._auto_inlinable(cand, stack):
                        callee = cand
                    elif info["base_key"] in CLOSURE_CALLS and args:
                        c0 = mir.strip_refs(args[0])
                        if c0[0] == "agg" and c0[1] == "closure" and c0[2] in self.crate.bodies and \
                                (id(self.crate.bodies[c0[2]]), 0) not in stack:
                            callee = self.crate.bodies[c0[2]]
                            tup = args[1] if len(args) > 1 else ("agg", "tuple", None, None, [])
                            elems = tup[4] if tup[0] == "agg" and tup[1] == "tuple" else [tup]
                            cargs = [args[0]] + list(elems)
                        elif c0[0] == "fn" and len(c0) > 2 and isinstance(c0[2], dict):
                            # a function item passed as a value and invoked: f(args) is a direct call of that function
                            finfo = callee_info(c0[2])
                            fcand = self.crate.bodies.get(finfo["def"]) if finfo["def"] else None
                            tup = args[1] if len(args) > 1 else ("agg", "tuple", None, None, [])
                            elems = tup[4] if tup[0] == "agg" and tup[1] == "tuple" else [tup]
                            if fcand is not None and (id(fcand), 0) not in stack and (
                                    finfo["key"] in self.inline or finfo["base_key"] in self.inline or
                                    (self.auto_inline and self._auto_inlinable(fcand, stack))):
                                callee = fcand
                                cargs = list(elems)
                                info = finfo
                if callee is not None:
                    self._inline(callee, cargs, t, body, env, events, stack, depth, cont, info["key"], info["targs"])
                    return
                # loop-like iterator combinators taking a local closure: the closure body is explored once as the loop body
                if self.crate is not None and info["base_key"] in LOOP_COMBINATORS and depth < self.inline_depth:
                    clos = None
                    for a in args[1:]:
                        c0 = mir.strip_refs(a)
                        if c0[0] == "agg" and c0[1] == "closure" and c0[2] in self.crate.bodies:
                            clos = c0
                    if clos is not None and (id(self.crate.bodies[clos[2]]), 0) not in stack:
                        cb = self.crate.bodies[clos[2]]
                        site = next(self.sites)
                        res = ("call", info["key"], info["def"], args, site, info["targs"])
                        elem = ("elem", args[0])
                        cenv = {"$mem": env["$mem"], "$dec": env["$dec"], 1: clos}
                        n_extra = cb.arg_count - 1
                        extra = [elem] if n_extra == 1 else [("acc", args[1]), elem][:n_extra]
                        for i, a in enumerate(extra):
                            cenv[i + 2] = a
                        events.append(("loop", info["key"], "begin", site))
                        dest, tgt = t["dest"], t["t"]

                        def k_loop(ev2, ret, env2, _env=env, _dest=dest, _tgt=tgt, _body=body, _stack=stack, _depth=depth,
                                   _cont=cont, _res=res, _site=site, _info=info, _args=args):
                            ev2.append(("loop", _info["key"], "end", _site, ret))
                            ev2.append(("call", _site, _info["key"], _info["base_key"], _info["def"], _args, _info["targs"], _res))
                            e3 = dict(_env)
                            e3["$mem"] = env2["$mem"]
                            e3["$dec"] = env2["$dec"]
                            self.write_place(_body, e3, _dest, _res, ev2)
                            if _tgt is None:
                                self._finish(ev2, ("diverge", "loop"), None, e3)
                            else:
                                self._explore(_body, _tgt, e3, ev2, _stack, _depth, _cont)
                        self._explore(cb, 0, cenv, events, stack, depth + 1, k_loop)
                        return
                site = next(self.sites)
                res = model_call(info, args)
                if info["key"] in ("Option<T>::ok_or_else", "Option<T>::ok_or") and len(args) == 2:
                    # x.ok_or(e) / x.ok_or_else(f): Some(v) -> Ok(v), None -> Err(e); a local closure is evaluated for its value
                    x = args[0]
                    e = args[1]
                    if info["key"].endswith("ok_or_else"):
                        e = self._closure_value(args[1]) or ("call", "closure-value", None, [args[1]], site, [])
                    cond = ("discr", x, ((0, "None"), (1, "Some")))
                    payload = ("field", ("variant", x, "Some"), "0", 0, "?")
                    res = ("fork", [(cond, 1, ("agg", "adt", "core::result::Result", "Ok", [payload])),
                                    (cond, 0, ("agg", "adt", "core::result::Result", "Err", [e]))])
                    xs = mir.strip_refs(x)
                    if xs[0] == "agg" and xs[2] == "core::option::Option":
                        res = res[1][0][2] if xs[3] == "Some" else res[1][1][2]
                        if xs[3] == "Some":
                            res = ("agg", "adt", "core::result::Result", "Ok", [xs[4][0]])
                if info["key"] == "Option<T>::insert" and len(args) == 2 and args[0][0] == "ref":
                    # opt.insert(v): *opt = Some(v); yields &mut v
                    target = args[0][1]
                    some = ("agg", "adt", "core::option::Option", "Some", [args[1]])
                    mem = dict(env["$mem"])
                    k_ = norm(target)
                    for other in list(mem):
                        if _prefix(k_, other) or _prefix(other, k_):
                            del mem[other]
                    mem[k_] = some
                    env["$mem"] = mem
                    events.append(("store", target, some))
                    res = ("ref", args[1])
                if info["key"] in ("Result<T, E>::map", "Option<T>::map", "Result<T, E>::map_err") and len(args) == 2:
                    x = mir.strip_refs(args[0]) if args[0][0] == "ref" else args[0]
                    if x[0] == "agg" and x[1] == "adt" and x[2] in ("core::result::Result", "core::option::Option"):
                        hit = ("Err",) if info["key"].endswith("map_err") else ("Ok", "Some")
                        if x[3] in hit and x[4]:
                            v = self._apply_fn(args[1], x[4][0], site)
                            res = ("agg", "adt", x[2], x[3], [v])
                        else:
                            res = x
                    elif x[0] == "errprop" and not info["key"].endswith("map_err"):
                        res = x                  # an error passes through map unchanged
                    elif x[0] == "call" and not info["key"].endswith("map_err"):
                        # opaque x: x.map(f) decides like `match x { Ok(v) => Ok(f(v)), Err(e) => Err(e) }` when f is a local
                        # single-path closure or a function item (so that `.map(..)` and `?` + `Ok(..)` read the same)
                        is_res = info["key"].startswith("Result")
                        payload = ("okval", args[0]) if is_res else ("field", ("variant", args[0], "Some"), "0", 0, "?")
                        v = self._apply_fn(args[1], payload, site)
                        if not (v[0] == "call" and v[1] == "apply"):
                            if is_res:
                                cond = ("discr", args[0], ((0, "Ok"), (1, "Err")))
                                res = ("fork", [(cond, 0, ("agg", "adt", "core::result::Result", "Ok", [v])),
                                                (cond, 1, ("errprop", args[0]))])
                            else:
                                cond = ("discr", args[0], ((0, "None"), (1, "Some")))
                                res = ("fork", [(cond, 1, ("agg", "adt", "core::option::Option", "Some", [v])),
                                                (cond, 0, ("agg", "adt", "core::option::Option", "None", []))])
                if info["key"] in ("Result<T, E>::map_or", "Option<T>::map_or", "Result<T, E>::map_or_else",
                                   "Option<T>::map_or_else") and len(args) == 3 and mir.strip_refs(args[0])[0] == "agg" and \
                        mir.strip_refs(args[0])[2] in ("core::option::Option", "core::result::Result"):
                    # the variant of x is known on this path
                    x = mir.strip_refs(args[0])
                    if x[3] in ("Some", "Ok") and x[4]:
                        r_ = self._apply_fn(args[2], x[4][0], site)
                    elif info["key"].endswith("_else"):
                        r_ = self._apply_fn(args[1], x[4][0], site) if x[4] else self._closure_value(args[1])
                    else:
                        r_ = args[1]
                    if r_ is not None and not (r_[0] == "call" and r_[1] == "apply"):
                        res = r_
                elif info["key"] in ("Result<T, E>::map_or", "Option<T>::map_or", "Result<T, E>::map_or_else",
                                     "Option<T>::map_or_else") and len(args) == 3 and args[0][0] in ("call", "ref", "field", "arg"):
                    # x.map_or(d, f) == match x { Ok(v)/Some(v) => f(v), _ => d }; map_or_else evaluates a closure for d
                    x = args[0]
                    is_res = info["key"].startswith("Result")
                    payload = ("okval", x) if is_res else ("field", ("variant", x, "Some"), "0", 0, "?")
                    v_ok = self._apply_fn(args[2], payload, site)
                    if info["key"].endswith("_else"):
                        v_d = self._apply_fn(args[1], ("errval", x), site) if is_res else (self._closure_value(args[1]) or None)
                    else:
                        v_d = args[1]
                    if v_d is not None and not (v_ok[0] == "call" and v_ok[1] == "apply") and \
                            not (isinstance(v_d, tuple) and v_d[0] == "call" and v_d[1] == "apply"):
                        if is_res:
                            cond = ("discr", x, ((0, "Ok"), (1, "Err")))
                            res = ("fork", [(cond, 0, v_ok), (cond, 1, v_d)])
                        else:
                            cond = ("discr", x, ((0, "None"), (1, "Some")))
                            res = ("fork", [(cond, 1, v_ok), (cond, 0, v_d)])
                if isinstance(res, tuple) and res and res[0] == "fork":
                    opaque = ("call", info["key"], info["def"], args, site, info["targs"])
                    events.append(("call", site, info["key"], info["base_key"], info["def"], args, info["targs"], opaque))
                    for cond, val, result in res[1]:
                        e2 = dict(env)
                        ev2 = events + [("atom", cond, val)]
                        self.write_place(body, e2, t["dest"], result, ev2)
                        if t["t"] is not None:
                            self._explore(body, t["t"], e2, ev2, stack, depth, cont)
                    return
                if res is None:
                    res = ("call", info["key"], info["def"], args, site, info["targs"])
                events.append(("call", site, info["key"], info["base_key"], info["def"], args, info["targs"], res))
                self.write_place(body, env, t["dest"], res, events)
                if t["t"] is None:
                    self._finish(events, ("diverge", info["key"]), None, env)
                    return
                bb = t["t"]
                continue
            if k == "switch":
                op = self.operand(body, env, t["op"])
                tgt = self._decide(op, t)
                if tgt is not None:
                    bb = tgt
                    continue
                edges = [(int(v), b2) for v, b2 in t["targets"]]
                listed = [v for v, _ in edges]
                alle = edges + [(("not", listed), t["otherwise"])]
                real = [(v, b2) for v, b2 in alle if not mir.is_trivially_unreachable(body, b2)]
                if len(real) == 1:
                    bb = real[0][1]
                    continue
                nk = repr(norm(op))
                dec = env["$dec"]
                if nk in dec:
                    m = [b2 for v, b2 in real if _canon_edge(op, v) == dec[nk]]
                    if len(m) == 1:
                        bb = m[0]
                        continue
                for v, b2 in real:
                    e2 = dict(env)
                    e2["$dec"] = dict(dec)
                    e2["$dec"][nk] = _canon_edge(op, v)
                    self._explore(body, b2, e2, events + [("atom", op, v)], stack, depth, cont)
                return
            self._finish(events, ("diverge", "term:" + k), None, env)
            return

    def _apply_fn(self, f, v, site):
        """value of f(v) for a local closure with one straight path or a function item; otherwise an opaque application"""
        f0 = mir.strip_refs(f)
        if f0[0] == "agg" and f0[1] == "closure":
            r = self._closure_value(f0, [v])
            if r is not None:
                return r
        if f0[0] == "fn" and len(f0) > 2 and isinstance(f0[2], dict):
            info = callee_info(f0[2])
            d_ = re.sub(r"::<.*?>", "", info["def"] or "")
            ctor = {"core::option::Option::Some": ("core::option::Option", "Some"),
                    "core::result::Result::Ok": ("core::result::Result", "Ok"),
                    "core::result::Result::Err": ("core::result::Result", "Err")}.get(d_)
            if ctor:
                return ("agg", "adt", ctor[0], ctor[1], [v])      # a tuple-variant constructor used as a function
            return ("call", info["key"], info["def"], [v], site, info["targs"])
        return ("call", "apply", None, [f, v], site, [])

    def _closure_value(self, clos, args=()):
        """value returned by a local closure with a single straight path (used for `ok_or_else(|| ..)` and friends)"""
        c0 = mir.strip_refs(clos)
        if self.crate is None or c0[0] != "agg" or c0[1] != "closure" or c0[2] not in self.crate.bodies:
            return None
        w = Walker(self.crate.bodies[c0[2]], self.crate, self.inline, 50, self.inline_depth, self.auto_inline)
        ps = w.run([c0] + list(args))
        rets = [p for p in ps if p.outcome[0] == "return"]
        if len(ps) == 1 and len(rets) == 1:
            return rets[0].outcome[1]
        return None

    def _auto_inlinable(self, cand, stack):
        if cand.key in ANCHORS or cand.key.split("::{closure")[0] in ANCHORS:
            return False
        if cand.kind == "Closure":
            return False
        if cand.vis is None or cand.vis == "Public":
            return False
        if cand.impl and cand.impl.get("trait"):
            return False                 # trait impl methods are semantic units (codecs, sinks, sources)
        if cand.in_trait:
            return False
        if (id(cand), 0) in stack:
            return False
        return len(cand.blocks) <= 120

    def _inline(self, callee, args, t, body, env, events, stack, depth, cont, key, targs=None):
        cenv = {"$mem": env["$mem"], "$dec": env["$dec"]}
        gens = [g for g in callee.raw.get("generics", []) if g.get("k") != "lt"]
        if targs and len(gens) == len(targs):
            th = {g["s"]: a for g, a in zip(gens, targs) if g.get("k") == "param" and a.get("s") and a.get("s") != g.get("s")}
            cth = {}
            for g, a in zip(gens, targs):
                if g.get("k") == "const" and a.get("k") == "const":
                    m = _CONSTVAL.match(a.get("s", ""))
                    if m:
                        cth[g["s"].split("/#")[0]] = int(m.group(1))
            outer = env.get("$theta") or {}
            if th or cth or outer:
                merged = dict(outer)
                merged.update(th)
                cenv["$theta"] = merged
                if cth or env.get("$ctheta"):
                    cc = dict(env.get("$ctheta") or {})
                    cc.update(cth)
                    cenv["$ctheta"] = cc
        for i, a in enumerate(args):
            cenv[i + 1] = a
        dest, tgt = t["dest"], t["t"]

        def k_after(ev2, ret, env2, _env=env, _dest=dest, _tgt=tgt, _body=body, _stack=stack, _depth=depth, _cont=cont):
            e3 = dict(_env)
            e3["$mem"] = env2["$mem"]
            e3["$dec"] = env2["$dec"]
            self.write_place(_body, e3, _dest, ret, ev2)
            if _tgt is None:
                self._finish(ev2, ("diverge", "inlined"), None, e3)
            else:
                self._explore(_body, _tgt, e3, ev2, _stack, _depth, _cont)
        events.append(("inline", key))
        self._explore(callee, 0, cenv, events, stack, depth + 1, k_after)

    def _decide(self, op, t):
        """constant folding of a switch"""
        val = None
        if op[0] == "const" and op[2] is not None:
            val = op[2]
            if op[1] in ("i8", "i16", "i32", "i64", "i128", "isize") and val < 0:
                bits = {"i8": 8, "i16": 16, "i32": 32, "i64": 64, "i128": 128, "isize": 64}[op[1]]
                val += 1 << bits
        elif op[0] == "discr":
            x = mir.strip_refs(op[1])
            if x[0] == "agg" and x[1] == "adt" and x[3] is not None:
                for v, n in op[2]:
                    if n == x[3]:
                        val = v
        if val is None:
            return None
        for v, b2 in t["targets"]:
            if int(v) == val:
                return b2
        return t["otherwise"]


def _canon_edge(op, v):
    """canonical meaning of taking edge `v` of a switch on `op`: variant name, bool, or the raw value"""
    if op[0] == "discr" and op[2]:
        if isinstance(v, int):
            return ("variant", dict(op[2]).get(v, v))
        rest = [n for k, n in op[2] if k not in v[1]]
        if len(rest) == 1:
            return ("variant", rest[0])
        return ("notin", tuple(v[1]))
    if isinstance(v, int):
        return ("val", v) if v not in (0, 1) else ("bool", bool(v))
    if v[1] == [0]:
        return ("bool", True)
    if v[1] == [1]:
        return ("bool", False)
    return ("notin", tuple(v[1]))


import re as _re
_CONSTVAL = _re.compile(r"^(-?\d+)(?:_[iu](?:8|16|32|64|128|size))?$")


def _subst_ty(t, theta):
    """replace type parameters of an inlined generic helper by the caller's types (structure and display string)"""
    if not isinstance(t, dict):
        return t
    if t.get("k") == "param" and t.get("s") in theta:
        return theta[t["s"]]
    out = dict(t)
    s = t.get("s")
    if s:
        for k, v in theta.items():
            if k in s:
                s = s.replace(k, v.get("s", k))
        out["s"] = s
    if "args" in t:
        out["args"] = [_subst_ty(x, theta) for x in t["args"]]
    if "t" in t and isinstance(t["t"], dict):
        out["t"] = _subst_ty(t["t"], theta)
    if "ts" in t:
        out["ts"] = [_subst_ty(x, theta) for x in t["ts"]]
    return out


def _prefix(a, b):
    """place key a is a (field) prefix of b"""
    while isinstance(b, tuple):
        if a == b:
            return True
        if b[0] in ("field", "index", "variant") and len(b) > 1:
            b = b[1]
        else:
            return False
    return False


def fold_bin(op, l, r):
    if l[0] == "const" and r[0] == "const" and l[2] is not None and r[2] is not None:
        a, b = l[2], r[2]
        res = None
        if op == "Eq":
            res = a == b
        elif op == "Ne":
            res = a != b
        elif op == "Lt":
            res = a < b
        elif op == "Le":
            res = a <= b
        elif op == "Gt":
            res = a > b
        elif op == "Ge":
            res = a >= b
        if res is not None:
            return ("const", "bool", 1 if res else 0, "", None, None)
    # comparisons of an unsigned value with 0 that cannot go both ways (x >= 0, x < 0, 0 <= x, 0 > x): no decision is made
    if op in ("Ge", "Lt") and r[0] == "const" and r[2] == 0:
        from . import guards as _g
        rl = _g.rng(l)
        if rl and rl[0] >= 0:
            return ("const", "bool", 1 if op == "Ge" else 0, "", None, None)
    if op in ("Le", "Gt") and l[0] == "const" and l[2] == 0:
        from . import guards as _g
        rr = _g.rng(r)
        if rr and rr[0] >= 0:
            return ("const", "bool", 1 if op == "Le" else 0, "", None, None)
    return ("bin", op, l, r)


def model_call(info, args):
    """Data-moving std functions get a transparent model; everything else stays an opaque call term."""
    k = info["key"]
    bk = info["base_key"]
    if k.endswith("Try>::branch") and args:
        x = mir.strip_refs(args[0]) if args[0][0] == "ref" else args[0]
        if x[0] == "agg" and x[2] == "core::result::Result":
            if x[3] == "Ok":
                return ("agg", "adt", "core::ops::control_flow::ControlFlow", "Continue", [x[4][0]])
            return ("agg", "adt", "core::ops::control_flow::ControlFlow", "Break", [x])
        if x[0] == "agg" and x[2] == "core::option::Option":
            if x[3] == "Some":
                return ("agg", "adt", "core::ops::control_flow::ControlFlow", "Continue", [x[4][0]])
            return ("agg", "adt", "core::ops::control_flow::ControlFlow", "Break", [x])
        if x[0] == "errprop":
            # `?` applied to a value that is already a propagated error (returned by an inlined helper)
            return ("agg", "adt", "core::ops::control_flow::ControlFlow", "Break", [("residual", x[1])])
        return ("try", args[0])
    if k in ("Option<T>::is_some", "Option<T>::is_none", "Result<T, E>::is_ok", "Result<T, E>::is_err") and args:
        x = mir.strip_refs(args[0])
        if x[0] == "agg" and x[2] in ("core::option::Option", "core::result::Result"):
            yes = {"is_some": "Some", "is_none": "None", "is_ok": "Ok", "is_err": "Err"}[k.split("::")[-1]]
            return ("const", "bool", 1 if x[3] == yes else 0, "true" if x[3] == yes else "false", None, None)
    if k.endswith("::from_residual") and args:
        x = args[0]
        if x[0] == "residual":
            return ("errprop", x[1])
        if x[0] == "agg" and x[2] == "core::result::Result" and x[3] == "Err":
            return x
    if k in ("Result<Option<T>, E>::transpose",) and args:
        x = args[0]
        cond = ("discr", x, ((0, "Ok/Some"), (1, "Ok/None"), (2, "Err")))
        some = lambda v: ("agg", "adt", "core::option::Option", "Some", [v])
        return ("fork", [
            (cond, 0, some(("agg", "adt", "core::result::Result", "Ok", [("okval", x)]))),
            (cond, 1, ("agg", "adt", "core::option::Option", "None", [])),
            (cond, 2, some(("agg", "adt", "core::result::Result", "Err", [("errval", x)]))),
        ])
    if bk in ("IntoIterator::into_iter",) and args and "Iterator" not in k.split(" as ")[0]:
        return None
    if k in ("<T as From<T>>::from", "<T as Into<U>>::into") and args:
        return None
    return None


def atom_variant(a):
    """variant name selected by a discriminant atom (also through the `otherwise` edge when one variant remains)"""
    c, v = a[1], a[2]
    if c[0] != "discr":
        return None
    names = dict(c[2])
    if isinstance(v, int):
        return names.get(v)
    rest = [n for k, n in c[2] if k not in v[1]]
    return rest[0] if len(rest) == 1 else None


def walk(body, crate=None, inline=(), args=None, max_paths=3000, auto_inline=True):
    return Walker(body, crate, inline, max_paths, auto_inline=auto_inline).run(args)


# ------------------------------------------------------------------------------------------------ pretty
def show_event(e):
    s = mir.show
    if e[0] == "call":
        return "CALL#%d %s(%s)" % (e[1], e[2], ", ".join(s(a) for a in e[5]))
    if e[0] == "atom":
        c = e[1]
        if c[0] == "discr":
            names = dict(c[2])
            v = e[2]
            nm = names.get(v, v) if isinstance(v, int) else "not(%s)" % ",".join(str(names.get(x, x)) for x in v[1])
            return "ATOM %s is %s" % (s(c[1]), nm)
        return "ATOM %s == %s" % (s(c), e[2])
    if e[0] == "store":
        return "STORE %s := %s" % (s(e[1]), s(e[2]))
    if e[0] == "assert":
        return "ASSERT %s" % e[1]
    return str(e[:2])


def show_path(p, only_calls=None):
    out = []
    for e in p.events:
        if e[0] == "assert":
            continue
        out.append(show_event(e))
    o = p.outcome
    out.append("=> %s %s" % (o[0], mir.show(o[1]) if len(o) > 1 and isinstance(o[1], tuple) else (o[1] if len(o) > 1 else "")))
    return out

"""Positive examples for zero-expectation rules (corpus::bad): every run re-proves that the rule still fires."""
from .report import Report
from .rules import n_totality as N
from .rules import e_errors as E
from .rules import u_unsafe as U

EXPECT = {
    "N3": ("bad_sign_cast", lambda an, rep, c, roots: N.sign_loss_casts(an, rep, crate=c, roots=roots)),
    "N4": ("bad_alloc", lambda an, rep, c, roots: N.alloc_taint(an, rep, crate=c, roots=roots, floor=False)),
    "E1": ("bad_swallow", lambda an, rep, c, roots: E._check_side(an, rep, "decode", "E1", crate=c, roots=roots)),
    "N1/panic": ("bad_panic", lambda an, rep, c, roots: N.may_panic(an, rep, "decode", "N1", 0, 0, crate=c, roots=roots)),
    "N1/index": ("bad_index", lambda an, rep, c, roots: N.may_panic(an, rep, "decode", "N1", 0, 0, crate=c, roots=roots)),
    "U2": ("bad_transmute", lambda an, rep, c, roots: U.transmutes(an, rep, crate=c)),
    "U7": ("bad_unbounded", lambda an, rep, c, roots: U.unbounded_lifetimes(an, rep, crate=c)),
    "U3": ("bad_uninit", lambda an, rep, c, roots: U.uninit_apis(an, rep, crate=c)),
}


def make(names):
    def run(an, rep):
        R = rep.rule("SELF", "positive examples (corpus::bad): each zero-expectation rule still flags the construct planted for it")
        crate = an.corpus().crate("verif_corpus", False)
        for nm in names:
            fn_key, runner = EXPECT[nm]
            b = crate.find(fn_key)
            if not b:
                R.anchor_missing("corpus " + fn_key)
                continue
            scratch = Report("SELFTEST", "quick", "other")
            runner(an, scratch, crate, [b])
            hits = [v for r in scratch.rules for v in r.violations if v["function"] == b.key]
            R.check(bool(hits), nm, "positive example " + fn_key, "rule %s no longer flags its positive example %s: it would pass "
                    "vacuously" % (nm, fn_key), None, sample={"rule": nm, "example": fn_key, "flagged": hits[0]["what"][:100] if hits else None})
        return R
    run.__name__ = "selftest_" + "_".join(n.replace("/", "") for n in names)
    return run

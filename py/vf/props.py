"""Property -> rule instances.  Each entry lists the rule functions (taking (analysis, report)), the claimed level,
the explanation recorded in the evidence and the not-decided remainder (assumptions)."""
from .rules import n_totality as N
from .rules import u_unsafe as U
from .rules import s_state as S
from .rules import p_primitive as P
from .rules import b_bits as B
from .rules import w_witness as W
from .rules import e_errors as E
from .rules import r_regions as R
from .rules import o_order as O
from .rules import t_tables as T
from .rules import d_derive as D
from .rules import g_grammar as G
from . import thorough as TH
from . import selftest as ST


def _n1(an, rep):
    return N.may_panic(an, rep, "decode", "N1")


def _n2_matrix(an, rep):
    return N.may_panic(an, rep, "encode", "N2", min_roots=40, min_reach=50)


def _n2(an, rep):
    return N.may_panic(an, rep, "encode", "N2")


THIRD_PARTY = "third-party crates (chrono, flate2/miniz_oxide, num-bigint, bigdecimal, uuid, bytes, hashbrown, castaway, " \
              "std) behave as documented; a callee without a `# Panics` section in its rustdoc does not panic"
MIR_TB = ["rustc nightly front end + MIR construction (mir-opt-level=0, overflow checks on)", "mirdump fact extraction",
          "the rule implementations under /verif/py/vf"]
STATIC_ONLY = "structural necessary conditions are decided for every value at once; the end-to-end equality on concrete " \
              "values (a dynamic statement) is not decided and no test is run in its place"
CORPUS = "the `all derivable declarations` quantifier is represented by the declaration corpus (/verif/corpus + every " \
         "derived type in the repository; the thorough tier adds a generated family)"

PROPS = {
    "C01": {
        "level": "other",
        "rules": [G.pair_table, G.pairs_unify, G.writers_conform, G.sequences, G.char_codec, P.output_methods, P.input_methods,
                  B.varints, U.transmutes, R.no_peeking, S.statics_inventory, S.fresh_context],
        "thorough": [TH.feature_matrix_grammar],
        "explanation": "Structural round-trip argument: every built-in type has one writer/reader pair (G1); for each pair every "
                       "writer path unifies with a reader path that reads the same primitives in the same order, honours the "
                       "writer's tag constants, lets length binders govern payloads and routes each binder into the "
                       "constructor slot the writer filled (G2/G6); sequence readers are exhaustive (G4/G9); floats and "
                       "integers travel through same-type to_be_bytes/from_be_bytes (P1/P3); the byte fast paths copy between "
                       "equal types (U2); no decoder depends on the remaining length (R4); the entry points hand out the bytes "
                       "of this call only: no static / thread-local state, a fresh context and output per call (S1/S5).",
        "assumptions": [STATIC_ONLY, THIRD_PARTY + " and their conversions are mutually inverse (to_string/parse, "
                        "to_be_bytes/from_signed_bytes_be, from_local_datetime, UTF-16 encode/decode)"],
        "trusted_base": MIR_TB,
    },
    "C02": {
        "level": "translation_validation",
        "rules": [D.validate, T.record_writer, T.read_field, T.read_optional_field, T.header_reader],
        "thorough": [TH.generated_corpus],
        "explanation": "Translation validation of the derive macro: for every corpus declaration the generated writer, reader "
                       "and metadata static (extracted from the expansion's MIR) equal the skeleton computed by an independent "
                       "model of the documented field-by-field procedure (D1-D6); T6/T1/T2/T4 give the meaning of the "
                       "AdtSerializer/AdtDeserializer calls the skeleton consists of.",
        "assumptions": [CORPUS, STATIC_ONLY],
        "trusted_base": MIR_TB + ["syn (declaration reader)", "the declaration model in py/vf/rules/d_derive.py"],
    },
    "C03": {
        "level": "other",
        "rules": [T.read_field, T.read_optional_field, T.header_reader, T.header_writer, T.step_codes, T.field_position,
                  T.metadata_tables, T.record_writer, R.chunks_skipped, R.pairing, D.validate],
        "thorough": [TH.generated_corpus],
        "explanation": "The reader's and writer's decision procedures are compared, path by path, with the documented outcome "
                       "table: read_field / read_optional_field rows incl. the two specific errors (T1, T2), header "
                       "interpretation (T4) and construction (T5), step and position codes (T7, T8), metadata tables with the "
                       "FieldRemoved/FieldMadeTransient alias rule (T14), per-chunk positions (T6), all chunks skipped up front "
                       "(R5), reads confined to their chunk's region (R1); derived types use their declared history (D4).",
        "assumptions": ["not decided: the composed value for a concrete (history, writer version, reader version): each "
                        "decision and the population of its inputs is checked, their composition over a concrete history is dynamic",
                        CORPUS],
        "trusted_base": MIR_TB + ["the decision tables transcribed from the Evolution doc comments in py/vf/rules/t_tables.py"],
    },
    "C04": {
        "level": "other",
        "rules": [G.writers_conform, G.pairs_unify, G.sequences, G.char_codec, G.compressed_frame, P.output_methods,
                  P.input_methods, B.varints, T.record_writer, T.header_writer, T.step_codes, T.field_position, T.sequence_writer,
                  T.sequence_reader, T.constructors, T.dedup_strings, T.ref_protocol, D.validate],
        "thorough": [TH.feature_matrix_grammar],
        "explanation": "Absolute conformance of structure: the writer grammar of every built-in codec equals the FORMAT table "
                       "(kinds, order, tag constants, VarI32 vs VarU32 prefixes, slot labels) (G3/G6), primitives are "
                       "big-endian to_be_bytes (P1/P3), varints are bit-exact (B1-B6), record/step/position layout (T6-T8), "
                       "both sequence forms (T13) and a reader accepting both (T12), enum layout (T3, D2), state protocols "
                       "(T9, T10).  A change applied symmetrically to writer and reader is caught because the oracle is the "
                       "format table, not the other half.",
        "assumptions": ["the FORMAT table in py/vf/rules/g_grammar.py is a hand transcription of the documented format",
                        "byte equality for concrete values and the golden file itself are not analysed", THIRD_PARTY],
        "trusted_base": MIR_TB + ["FORMAT table"],
    },
    "C05": {
        "level": "other",
        "rules": [_n1, N.sign_loss_casts, N.alloc_taint, N.loops_progress, E.decode_errors, P.sources_agree, R.coordinates,
                  B.varints, T.header_reader, U.inventory, U.transmutes, U.uninit_apis, D.validate, D.macrolint,
                  ST.make(["N1/panic", "N1/index", "N3", "N4", "E1", "U2", "U3"])],
        "thorough": [TH.feature_matrix_totality],
        "explanation": "Static totality argument for the decode side over the resolved MIR of desert_core: every may-panic site "
                       "reachable from the decode entry points is enumerated and discharged (N1), no signed wire integer "
                       "becomes a size unchecked (N3), no allocation is sized by an unsanitised wire value (N4), every loop "
                       "makes progress (N5), errors propagate (E1), the three sources use one overflow-safe bounds guard (P4), "
                       "region offsets live in one coordinate system (R3), the unsafe inventory is closed with typed transmute "
                       "obligations (U1-U3), generated readers end in an error return and contain no panicking construct (D7, D8).",
        "assumptions": [THIRD_PARTY, "not decided: wall-clock and heap budgets, stack depth of recursive decoders",
                        "allow-listed sites rest on the invariants named in their reason lines (checked by packs P/R/T)"],
        "trusted_base": MIR_TB,
    },
    "C06": {
        "level": "other",
        "rules": [R.coordinates, R.pairing, R.chunks_skipped, G.pairs_unify, G.sequences, E.decode_errors, T.read_field,
                  T.header_reader, T.step_codes, T.field_position, T.sequence_reader, T.ref_protocol, T.dedup_strings,
                  D.validate, P.input_methods, S.statics_inventory, S.constructors_and_writers],
        "thorough": [TH.feature_matrix(G.pairs_unify, G.sequences, E.decode_errors, name="feature_matrix_framing")],
        "explanation": "Framing is honoured structurally: a chunk window bounds the reads made inside it (R3), each field read "
                       "lies inside the window of its own generation and the advanced cursor is written back (R1), chunk windows "
                       "come from skipped sizes (R5), every length / count / tag read governs the bytes that follow (G2), unknown "
                       "tags and ids are errors (G7, T9, T10), arrays are built only from exactly L elements and sequence "
                       "consumers are exhaustive (G8, G9), errors propagate (E1); derived readers build one AdtDeserializer per "
                       "record / constructor and read exactly the declared fields through it (D1/D2).",
        "assumptions": ["not decided: agreement of accepted values with a strict reference decoder on tampered inputs (dynamic)",
                        "the reader's leniencies are those of DESIGN 4.5"],
        "trusted_base": MIR_TB,
    },
    "C07": {
        "level": "other",
        "rules": [G.pairs_unify, G.sequences, R.no_peeking, R.chunks_skipped, R.pairing, T.constructors, T.sequence_reader,
                  T.sequence_writer, T.header_reader, G.compressed_frame, D.validate, P.output_methods, P.input_methods, B.varints],
        "thorough": [TH.generated_corpus, TH.feature_matrix(G.pairs_unify, G.sequences, R.no_peeking, name="feature_matrix_delimiting")],
        "explanation": "Self-delimitation by structure: each reader path consumes exactly the primitives its writer path emitted "
                       "(G2, by induction over nested codecs), sequence readers consume the terminator / all counted items "
                       "(G4, G9, T12, T13), no decoder looks at the remaining length (R4), an evolved record moves the parent "
                       "cursor over all declared chunks exactly once whatever the reader's version (R5) while field reads happen "
                       "in regions that do not move it (R1), the constructor index is read once (T3); the primitive readers and "
                       "the varint routines consume exactly the bytes their writers emit (P1/P3, B).",
        "assumptions": ["the embedded + stored-version-0 + removal case is excluded (no framing in the format)", STATIC_ONLY],
        "trusted_base": MIR_TB,
    },
    "C08": {
        "level": "other",
        "rules": [P.sources_agree, P.input_methods, R.coordinates, R.chunks_skipped, R.no_peeking, E.decode_errors,
                  T.sequence_reader, T.header_reader, G.pairs_unify, G.sequences, B.varints],
        "thorough": [TH.feature_matrix(E.decode_errors, G.pairs_unify, G.sequences, name="feature_matrix_truncation")],
        "explanation": "By reduction: the decoder reads every byte of the encoding (C07's clauses: G2, G4/G9, R5), every read or "
                       "skip past the end is InputEndedUnexpectedly through one overflow-safe guard (P4) with region ends inside "
                       "the input (R3), no error is swallowed or defaulted (E1), a failed count read or a failed item read in "
                       "the unknown-size form is an error item, never the end of the sequence (T12); the provided read methods are "
                       "not overridden by any source (P3); no decoder looks at how much "
                       "input remains, so a count or size is never adapted to a short input (R4); the varint decoder is the "
                       "bit-exact 5-group reader whose every continuation read propagates its error (B4/B5): any strict prefix "
                       "fails at the first read crossing the cut.",
        "assumptions": [STATIC_ONLY, "version-0 data carries no sizes (format limit, excluded by the property)"],
        "trusted_base": MIR_TB,
    },
    "C09": {
        "level": "other",
        "rules": [T.dedup_strings, T.state_tables, T.step_codes, S.constructors_and_writers, B.varints, E.error_sites, G.pairs_unify,
                  G.sequences, O.header_strings, D.validate],
        "thorough": [TH.generated_corpus, TH.feature_matrix(O.header_strings, E.error_sites, name="feature_matrix_strings")],
        "explanation": "Writer/reader protocol of the string table (T9: the first occurrence is exactly <String>::serialize, a "
                       "repeat is VarI32(-id), unknown ids are InvalidStringId, the reader registers every first occurrence "
                       "exactly once), one numbering function starting at 1 used by both sides and no other writer of the "
                       "tables (T11, S3), a back-reference is a VarI32 of at most 5 bytes (B6), emission order equals stream "
                       "order except for the known header finding (O1), derived writers emit fields in declaration order, "
                       "which is the order the reader uses (D1), sequence writers emit every element once, in iteration order, "
                       "straight into the one context (G4).",
        "assumptions": ["not decided: the decoded string sequence for a concrete interleaving (dynamic)"],
        "trusted_base": MIR_TB,
    },
    "C10": {
        "level": "other",
        "rules": [T.ref_protocol, T.state_tables, S.constructors_and_writers, E.error_sites, D.validate],
        "thorough": [TH.generated_corpus, TH.feature_matrix(T.ref_protocol, T.state_tables, S.constructors_and_writers, name="feature_matrix_refs")],
        "explanation": "The library's obligations towards a user codec are the protocol clauses: first offer writes VarU32(0) and "
                       "returns true, later offers write the 1-based first-offer id through the context (so chunk buffering "
                       "applies) and return false; the reader maps 0 to `new object` and any other id through a checked lookup "
                       "to the object or InvalidRefId (T10); one numbering function from 1 shared by both sides, no other writer "
                       "of the tables (T11, S3).",
        "assumptions": ["graph isomorphism, sharing and termination on cycles are properties of the user codec built on this "
                        "protocol and are not decided"],
        "trusted_base": MIR_TB,
    },
    "C11": {
        "level": "proof",
        "rules": [B.varints, P.output_methods, P.input_methods, P.sources_agree],
        "thorough": [TH.feature_matrix(B.varints, P.output_methods, P.input_methods, P.sources_agree, name="feature_matrix_varints")],
        "explanation": "Exact bit-level abstract interpretation (GF(2)-affine bit vectors over the MIR of the four varint "
                       "routines) for all 2^32 inputs at once: byte layout, minimal length, continuation bits (B1), zig-zag "
                       "(B2, B4), reader (B3), read . write = id for both signednesses (B5); the routines are provided trait "
                       "methods that no sink/source overrides (P1, P3) and the sources deliver the same bytes (P4).",
        "assumptions": ["MIR semantics of shift / mask / cast / compare as implemented in py/vf/bitai.py"],
        "trusted_base": MIR_TB + ["py/vf/bitai.py transfer functions"],
    },
    "C12": {
        "level": "other",
        "rules": [G.sequences, T.sequence_writer, T.sequence_reader, G.pairs_unify, G.writers_conform, R.no_peeking],
        "thorough": [TH.feature_matrix(G.sequences, G.pairs_unify, name="feature_matrix_sequences")],
        "explanation": "All SEQ writers have one grammar (serialize_iterator or the same layout hand-written) and all byte "
                       "containers one (G4); the four byte containers are pinned to the same FORMAT entry VarU32(len) + bytes (G3); the writer's "
                       "two size forms (T13) are both accepted by the one shared reader (T12); every reader consumes the whole element stream and arrays check the count (G9, G8); maps are "
                       "sequences of 2-tuples (G2 on the tuple codec).",
        "assumptions": ["element order of hash containers is unordered by nature (excluded by the property)", STATIC_ONLY],
        "trusted_base": MIR_TB,
    },
    "C13": {
        "level": "translation_validation",
        "rules": [D.validate, D.macrolint, T.constructors, E.error_sites],
        "thorough": [TH.generated_corpus],
        "explanation": "For every corpus enum the constructor index is the position in declaration order (name order under "
                       "sorted_constructors), identical in the writer arm and the reader chain, all variants covered, extension "
                       "pairs keep the indices of existing variants (D2); selection is by the cached index alone and the index "
                       "is a VarU32 followed by the case record (T3); an unknown index is InvalidConstructorId, a transient one "
                       "DeserializingTransientConstructor (D7, D3, E3); generated code contains no panicking construct (D8).",
        "assumptions": [CORPUS],
        "trusted_base": MIR_TB + ["syn", "the declaration model"],
    },
    "C14": {
        "level": "translation_validation",
        "rules": [D.validate, T.header_writer, T.metadata_tables],
        "thorough": [TH.generated_corpus],
        "explanation": "Transient fields: no write_field, no read, the written values do not depend on the field, the declared "
                       "default is used; transient constructors produce the two dedicated errors naming type and constructor "
                       "(D3); a FieldMadeOptional step whose field is no longer written falls back to FieldRemoved for removed "
                       "and for transient names (T5 + the alias rule T14).",
        "assumptions": [CORPUS],
        "trusted_base": MIR_TB + ["syn", "the declaration model"],
    },
    "C15": {
        "level": "other",
        "rules": [P.output_methods, P.sink_bodies, P.input_methods, P.sources_agree, P.parametricity, S.fresh_context],
        "thorough": [TH.feature_matrix(P.output_methods, P.sink_bodies, P.input_methods, P.sources_agree, P.parametricity, name="feature_matrix_sinks")],
        "explanation": "Parametricity argument: generic codec code reaches a sink only through write_u8/write_bytes (P1), the "
                       "sinks implement exactly these two with the obvious bodies and SizeCalculator counts exactly (P2), no "
                       "code branches on the sink type (P5), the convenience entry points funnel into serialize (S5); the "
                       "three sources agree primitive by primitive and on end-of-input (P3, P4).",
        "assumptions": ["user-defined outputs are covered only in so far as they implement the two required methods faithfully",
                        THIRD_PARTY],
        "trusted_base": MIR_TB,
    },
    "C16": {
        "level": "other",
        "rules": [G.compressed_frame, N.alloc_taint, N.narrowing_casts, P.sources_agree, P.output_methods, P.input_methods,
                  E.decode_errors, E.encode_errors, E.error_sites, ST.make(["N4", "E1"])],
        "thorough": [TH.feature_matrix(G.compressed_frame, N.alloc_taint, E.decode_errors, E.encode_errors, name="feature_matrix_compressed")],
        "explanation": "Frame structure on both sides (G10: VarU32 len(input), VarU32 len(deflated), deflated bytes; the reader "
                       "consumes exactly the second length on every successful path; everything is deflated / inflated with "
                       "read_to_end), true lengths through checked conversions (N6), no reservation from the untrusted length "
                       "(N4), truncated frames are errors (P4, E1), flate2 failures are mapped to De/CompressionFailure (E3); a frame is "
                       "refused only because a read failed or the inflater failed, never on its length fields alone (G10); no sink "
                       "or source overrides the provided compressed / varint methods, so the frame goes through the buffer-aware "
                       "write_u8 / write_bytes of the context (P1/P3).",
        "assumptions": ["inflate . deflate is the identity for every content and level and flate2/miniz_oxide never panic on "
                        "damaged data (third-party, trusted)"],
        "trusted_base": MIR_TB,
    },
    "C17": {
        "level": "other",
        "rules": [_n2, N.narrowing_casts, E.encode_errors, E.error_sites, G.char_codec, G.writers_conform, G.sequences,
                  T.sequence_writer, B.varints, S.fresh_context, T.header_writer, D.validate],
        "thorough": [TH.generated_corpus, TH.feature_matrix(_n2_matrix, N.narrowing_casts, E.encode_errors, G.char_codec, name="feature_matrix_encode")],
        "explanation": "Every may-panic site reachable from the encode entry points is discharged (N2; D6 certifies the new_v0 "
                       "assertion, R2 the buffer unwraps), lengths are narrowed with try_into()? -> LengthTooLarge (N6), errors "
                       "propagate (E2), every length / count prefix has the kind the format prescribes and is the checked "
                       "conversion of the length into that kind (G3, G4, T13), and errors are constructed where documented: "
                       "UnsupportedCharacter exactly outside the 16-bit "
                       "range (G11), SerializingTransientConstructor (D3), UnknownFieldReferenceInEvolutionStep (T5); "
                       "serialize() hands back the output only on the Ok edge (S5); the one documented panic (more than 255 "
                       "evolution steps, in AdtMetadata::new) is guarded by exactly that limit (N2).",
        "assumptions": [THIRD_PARTY, "declarations beyond the documented limits (> 255 steps, > 255 fields in a chunk) are out of scope"],
        "trusted_base": MIR_TB,
    },
    "C18": {
        "level": "proof",
        "rules": [S.statics_inventory, S.lazy_initialisers, S.constructors_and_writers, S.no_hash_iteration, S.fresh_context,
                  W.auto_traits, TH.derived_statics],
        "thorough": [TH.feature_matrix(S.statics_inventory, S.lazy_initialisers, S.no_hash_iteration, name="feature_matrix_statics")],
        "explanation": "Non-interference argument: the only process-wide state is Lazy<AdtMetadata> (S1, also for every derive "
                       "expansion in the corpus) whose initialisers are closed functions of constants (S2); per-call state is "
                       "created per context and written only by two functions (S3); hash seeds cannot reach the output (S4); "
                       "every entry point builds a fresh context (S5); contexts are !Send, metadata is Sync (U6).",
        "assumptions": ["std::sync::Once / lazy_static run an initialiser at most once and publish its result safely"],
        "trusted_base": MIR_TB + ["std::sync::Once", "lazy_static", "rustc auto-trait inference"],
    },
    "C19": {
        "level": "other",
        "rules": [U.inventory, U.transmutes, U.uninit_apis, U.raw_provenance, U.unbounded_lifetimes, W.lifetime_witnesses,
                  W.auto_traits,
                  G.sequences, ST.make(["U2", "U3", "U7"])],
        "thorough": [TH.feature_matrix(U.inventory, U.transmutes, U.uninit_apis, U.raw_provenance, name="feature_matrix_unsafe")],
        "explanation": "Closed inventory of unsafe operations (U1) with a typed obligation at each transmute (U2), no "
                       "uninitialised-memory API (U3), a provenance rule for raw pointers that are handed back as references "
                       "(U4), no function signature with a lifetime that occurs only in its return type (U7), compiler verdicts on a "
                       "catalogue of ten lifetime-escape witnesses with compiling twins (U5/U6), arrays built only from exactly "
                       "L decoded elements (G8).",
        "assumptions": ["soundness of the unsafe code inside castaway, bytes, hashbrown, std is trusted",
                        "client programs are represented by the witness catalogue (U5) and the general U4 rule"],
        "trusted_base": MIR_TB + ["rustc borrow checker (witness verdicts)"],
    },
}

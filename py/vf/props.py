"""Property -> rule instances.  Each entry lists the rule functions (taking (analysis, report)), the claimed level,
the explanation recorded in the evidence and the not-decided remainder (assumptions)."""
from .rules import n_totality as N
from .rules import u_unsafe as U
from .rules import s_state as S
from .rules import p_primitive as P
from .rules import b_bits as B


def _n1(an, rep):
    return N.may_panic(an, rep, "decode", "N1")


def _n2(an, rep):
    return N.may_panic(an, rep, "encode", "N2")


THIRD_PARTY = "third-party crates (chrono, flate2/miniz_oxide, num-bigint, bigdecimal, uuid, bytes, hashbrown, castaway, " \
              "std) behave as documented; a callee without a `# Panics` section in its rustdoc does not panic"
MIR_TB = ["rustc nightly front end + MIR construction (mir-opt-level=0, overflow checks on)", "mirdump fact extraction",
          "the rule implementations under /verif/py/vf"]

PROPS = {
    "C05": {
        "level": "other",
        "rules": [_n1, N.sign_loss_casts, N.alloc_taint, N.loops_progress, P.sources_agree, U.inventory, U.transmutes,
                  U.uninit_apis],
        "explanation": "Static totality argument for the decode side over the resolved MIR of desert_core: every "
                       "may-panic site reachable from the decode entry points is enumerated and discharged (N1), no signed "
                       "wire integer becomes a size unchecked (N3), no allocation is sized by an unsanitised wire value "
                       "(N4), every loop makes progress (N5), the three sources use one overflow-safe bounds guard (P4), "
                       "and the unsafe inventory is closed with typed transmute obligations (U1-U3).",
        "assumptions": [THIRD_PARTY,
                        "not decided: wall-clock and heap budgets, stack depth of recursive decoders",
                        "allow-listed sites rest on the invariants named in their reason lines (checked by packs P/R/T)"],
        "trusted_base": MIR_TB,
    },
    "C11": {
        "level": "proof",
        "rules": [B.varints, P.output_methods, P.input_methods, P.sources_agree],
        "explanation": "Exact bit-level abstract interpretation (GF(2)-affine bit vectors over the MIR of the four varint "
                       "routines) for all 2^32 inputs at once: byte layout, minimal length, continuation bits (B1), zig-zag "
                       "(B2, B4), reader (B3), read . write = id for both signednesses (B5); the routines are provided trait "
                       "methods that no sink/source overrides (P1, P3) and the sources deliver the same bytes (P4).",
        "assumptions": ["MIR semantics of shift / mask / cast / compare as implemented in py/vf/bitai.py"],
        "trusted_base": MIR_TB + ["py/vf/bitai.py transfer functions"],
    },
    "C15": {
        "level": "other",
        "rules": [P.output_methods, P.sink_bodies, P.input_methods, P.sources_agree, P.parametricity, S.fresh_context],
        "explanation": "Parametricity argument: generic codec code reaches a sink only through write_u8/write_bytes (P1), the "
                       "sinks implement exactly these two with the obvious bodies and SizeCalculator counts exactly (P2), no "
                       "code branches on the sink type (P5), the convenience entry points funnel into serialize (S5); the "
                       "three sources agree primitive by primitive and on end-of-input (P3, P4).",
        "assumptions": ["user-defined outputs are covered only in so far as they implement the two required methods faithfully",
                        THIRD_PARTY],
        "trusted_base": MIR_TB,
    },
    "C18": {
        "level": "proof",
        "rules": [S.statics_inventory, S.lazy_initialisers, S.constructors_and_writers, S.no_hash_iteration, S.fresh_context],
        "explanation": "Non-interference argument: the only process-wide state is Lazy<AdtMetadata> (S1) whose initialisers "
                       "are closed functions of constants (S2); per-call state is created per context and written only by two "
                       "functions (S3); hash seeds cannot reach the output (S4); every entry point builds a fresh context (S5).",
        "assumptions": ["std::sync::Once / lazy_static run an initialiser at most once and publish its result safely",
                        "auto-trait facts (contexts and State are !Send) are decided by the witness crate (U6) when present"],
        "trusted_base": MIR_TB + ["std::sync::Once", "lazy_static", "rustc auto-trait inference"],
    },
    "C19": {
        "level": "other",
        "rules": [U.inventory, U.transmutes, U.uninit_apis, U.raw_provenance],
        "explanation": "Closed inventory of unsafe operations (U1) with a typed obligation at each transmute (U2), no "
                       "uninitialised-memory API (U3) and a provenance rule for raw pointers that are handed back as "
                       "references (U4).",
        "assumptions": ["soundness of the unsafe code inside castaway, bytes, hashbrown, std is trusted",
                        "client programs are represented by the witness catalogue (U5) and the general U4 rule"],
        "trusted_base": MIR_TB,
    },
}

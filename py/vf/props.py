"""Property -> rule instances.  Each entry lists the rule functions (taking (analysis, report)), the claimed level,
the explanation recorded in the evidence and the not-decided remainder (assumptions)."""
from .rules import n_totality as N


def _n1(an, rep):
    return N.may_panic(an, rep, "decode", "N1")


def _n2(an, rep):
    return N.may_panic(an, rep, "encode", "N2")


THIRD_PARTY = "third-party crates (chrono, flate2/miniz_oxide, num-bigint, bigdecimal, uuid, bytes, hashbrown, castaway, " \
              "std) behave as documented; a callee without a `# Panics` section in its rustdoc does not panic"

PROPS = {
    "C05": {
        "level": "other",
        "rules": [_n1, N.sign_loss_casts, N.alloc_taint, N.loops_progress],
        "explanation": "Static totality argument for the decode side over the resolved MIR of desert_core: every "
                       "may-panic site reachable from the decode entry points is enumerated and discharged (N1), no signed "
                       "wire integer becomes a size unchecked (N3), no allocation is sized by an unsanitised wire value "
                       "(N4), every loop makes progress (N5).",
        "assumptions": [THIRD_PARTY,
                        "not decided: wall-clock and heap budgets, stack depth of recursive decoders",
                        "allow-listed sites rest on the invariants named in their reason lines (checked by packs P/R/T)"],
    },
}

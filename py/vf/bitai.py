"""GF(2)-affine bit-vector abstract interpretation of loop-free shift/mask code (the four varint routines).

A bit is TOP or (c, frozenset(vars)) meaning c xor the xor of the variables.  Values of width n are lists of n bits,
LSB first.  Path atoms are "all bits of vector V are zero" with its truth value; taking the true edge substitutes 0 for
the variables involved when each bit of V is a single variable or a constant (exact); otherwise the analysis fails
closed (Unsupported)."""
from . import mir

TOP = "T"
ZERO = (0, frozenset())
ONE = (1, frozenset())
WIDTH = {"u8": 8, "i8": 8, "u16": 16, "i16": 16, "u32": 32, "i32": 32, "u64": 64, "i64": 64, "usize": 64, "isize": 64,
         "bool": 1}
SIGNED = {"i8", "i16", "i32", "i64", "isize"}


class Unsupported(Exception):
    pass


def bvar(name):
    return (0, frozenset([name]))


def bxor(a, b):
    if a == TOP or b == TOP:
        return TOP
    return (a[0] ^ b[0], a[1] ^ b[1])


def band(a, b):
    if a == ZERO or b == ZERO:
        return ZERO
    if a == ONE:
        return b
    if b == ONE:
        return a
    if a == b and a != TOP:
        return a
    return TOP


def bor(a, b):
    if a == ONE or b == ONE:
        return ONE
    if a == ZERO:
        return b
    if b == ZERO:
        return a
    if a == b and a != TOP:
        return a
    return TOP


class BV:
    __slots__ = ("bits", "ty")

    def __init__(self, bits, ty):
        self.bits = list(bits)
        self.ty = ty

    @staticmethod
    def const(v, ty):
        n = WIDTH[ty]
        return BV([(ONE if (v >> i) & 1 else ZERO) for i in range(n)], ty)

    @staticmethod
    def var(prefix, ty):
        return BV([bvar("%s%d" % (prefix, i)) for i in range(WIDTH[ty])], ty)

    def is_const(self):
        return all(b != TOP and not b[1] for b in self.bits)

    def value(self):
        return sum(b[0] << i for i, b in enumerate(self.bits))

    def has_top(self):
        return any(b == TOP for b in self.bits)

    def subst(self, sub):
        out = []
        for b in self.bits:
            if b == TOP:
                out.append(TOP)
                continue
            c, vs = b
            nv = set()
            for v in vs:
                if v in sub:
                    c ^= sub[v]
                else:
                    nv.add(v)
            out.append((c, frozenset(nv)))
        return BV(out, self.ty)

    def __eq__(self, other):
        return isinstance(other, BV) and self.bits == other.bits

    def __repr__(self):
        def s(b):
            if b == TOP:
                return "T"
            if not b[1]:
                return str(b[0])
            return ("~" if b[0] else "") + "^".join(sorted(b[1]))
        return "%s[%s]" % (self.ty, " ".join(s(b) for b in self.bits))


def shl(a, k):
    n = len(a.bits)
    return BV([ZERO] * min(k, n) + a.bits[:max(0, n - k)], a.ty)


def shr(a, k):
    n = len(a.bits)
    fill = a.bits[-1] if a.ty in SIGNED else ZERO
    return BV(a.bits[k:] + [fill] * min(k, n), a.ty)


def cast(a, to):
    n = WIDTH[to]
    bits = a.bits[:n]
    if len(bits) < n:
        fill = a.bits[-1] if a.ty in SIGNED else ZERO
        bits = bits + [fill] * (n - len(bits))
    return BV(bits, to)


def neg(a):
    """two's complement negation; exact only when bits 1.. are known zero (result = bit 0 replicated)"""
    if all(b == ZERO for b in a.bits[1:]):
        return BV([a.bits[0]] * len(a.bits), a.ty)
    return BV([TOP] * len(a.bits), a.ty)


def pow2_split(c, width):
    """for a constant c return k when c == 2^k (0 <= k <= width)"""
    if c > 0 and c & (c - 1) == 0:
        return c.bit_length() - 1
    return None


class Result:
    def __init__(self, atoms, out, ret, nread, sub):
        self.atoms = atoms      # list of (BV, truth)
        self.out = out          # emitted bytes (BV u8) / ('subcall', name, BV)
        self.ret = ret
        self.nread = nread
        self.sub = sub          # variable -> 0/1 substitution taken on this path


class Interp:
    def __init__(self, body, args, reader_bytes=None, sub=None):
        self.b = body
        self.args = args
        self.reader_bytes = reader_bytes
        self.results = []
        self.init_sub = dict(sub or {})

    def run(self):
        env = dict(self.args)
        self._explore(0, env, [], [], 0, dict(self.init_sub), 0)
        return self.results

    # --------------------------------------------------------------------------------------------
    def operand(self, env, o):
        if "const" in o:
            c = o["const"]
            ty = c["ty"].get("n") or c["ty"]["k"]
            if c["val"] is None or ty not in WIDTH:
                return ("opaque", c["s"])
            v = int(c["val"])
            return BV.const(v & ((1 << WIDTH[ty]) - 1), ty)
        return self.read(env, mir.op_place(o))

    def read(self, env, p):
        cur = env.get(p["local"], ("unk", p["local"]))
        for pr in p["proj"]:
            k = pr["p"]
            if k == "field" and isinstance(cur, tuple) and cur[0] == "tuple":
                cur = cur[1][pr["i"]]
            elif k == "field" and isinstance(cur, tuple) and cur[0] == "variant":
                cur = cur[2][pr["i"]]
            elif k == "downcast":
                pass
            elif k == "deref" and isinstance(cur, tuple) and cur[0] == "ref":
                cur = env.get(cur[1], ("unk", cur[1])) if isinstance(cur[1], int) else cur[1]
            else:
                cur = ("proj", cur, k)
        return cur

    def rvalue(self, env, rv, sub):
        k = rv["rv"]
        if k == "use":
            return self.operand(env, rv["x"])
        if k == "ref":
            p = rv["place"]
            if not p["proj"]:
                return ("ref", p["local"])
            if len(p["proj"]) == 1 and p["proj"][0]["p"] == "deref":
                base = env.get(p["local"])
                if isinstance(base, tuple) and base[0] == "ref" and isinstance(base[1], int):
                    return base             # reborrow `&mut *r` keeps pointing at the same local
            return ("ref", self.read(env, p))
        if k == "cast":
            x = self.operand(env, rv["x"])
            if "PointerCoercion" in rv["kind"]:
                return x
            to = rv["to"].get("n") or rv["to"].get("k")
            if isinstance(x, BV) and to in WIDTH and rv["kind"] == "IntToInt":
                return cast(x, to)
            return ("opaque", "cast " + rv["kind"])
        if k == "bin":
            l, r = self.operand(env, rv["l"]), self.operand(env, rv["r"])
            op = rv["op"]
            if op.endswith("WithOverflow"):
                return ("tuple", [self._bin(op[:-12], l, r), BV.const(0, "bool")])
            return self._bin(op, l, r)
        if k == "un":
            x = self.operand(env, rv["x"])
            if rv["op"] == "Neg" and isinstance(x, BV):
                return neg(x)
            if rv["op"] == "Not" and isinstance(x, BV):
                return BV([bxor(b, ONE) for b in x.bits], x.ty)
            if rv["op"] == "Not" and isinstance(x, tuple) and x[0] == "iszero":
                return ("iszero", x[1], not x[2])
            return ("opaque", rv["op"])
        if k == "agg":
            fs = [self.operand(env, f) for f in rv["fields"]]
            if rv["kind"] == "array":
                return ("array", fs)
            if rv["kind"] == "tuple":
                return ("tuple", fs)
            if rv["kind"] == "adt":
                return ("variant", rv["variant"], fs)
        if k == "discr":
            return ("discr", self.read(env, rv["place"]))
        return ("opaque", k)

    def _bin(self, op, l, r):
        if not (isinstance(l, BV) and isinstance(r, BV)):
            return ("opaque", op)
        if op in ("Shl", "Shr") and r.is_const():
            return shl(l, r.value()) if op == "Shl" else shr(l, r.value())
        if op in ("BitAnd", "BitOr", "BitXor"):
            f = {"BitAnd": band, "BitOr": bor, "BitXor": bxor}[op]
            return BV([f(a, b) for a, b in zip(l.bits, r.bits)], l.ty)
        if op in ("Eq", "Ne"):
            for x, y in ((l, r), (r, l)):
                if y.is_const() and y.value() == 0:
                    return ("iszero", x, op == "Ne")
            if l.is_const() and r.is_const():
                return BV.const(1 if (l.value() == r.value()) == (op == "Eq") else 0, "bool")
        if op in ("Lt", "Le", "Gt", "Ge"):
            if l.is_const() and r.is_const() and l.ty not in SIGNED:
                a, b = l.value(), r.value()
                res = {"Lt": a < b, "Le": a <= b, "Gt": a > b, "Ge": a >= b}[op]
                return BV.const(1 if res else 0, "bool")
            # x < 2^k  <=>  x >> k == 0 (unsigned)
            if l.ty not in SIGNED:
                x, c, o = None, None, op
                if r.is_const():
                    x, c = l, r.value()
                elif l.is_const():
                    x, c = r, l.value()
                    o = {"Lt": "Gt", "Le": "Ge", "Gt": "Lt", "Ge": "Le"}[op]
                if x is not None:
                    # normalise to x < bound / x >= bound
                    if o == "Le":
                        o, c = "Lt", c + 1
                    elif o == "Gt":
                        o, c = "Ge", c + 1
                    k = pow2_split(c, len(x.bits))
                    if k is not None:
                        return ("iszero", shr(x, k), o == "Ge")
                    if not x.is_const():
                        raise Unsupported("comparison of a wire value with %d (0x%x): not a power-of-two group boundary, so it "
                                          "cannot delimit a 7-bit varint width class" % (c, c))
        return ("opaque", op)

    # --------------------------------------------------------------------------------------------
    def _explore(self, bb, env, atoms, out, nread, sub, steps):
        blocks = self.b.blocks
        while True:
            steps += 1
            if steps > 2000:
                raise Unsupported("path too long (loop?) in %s" % self.b.key)
            blk = blocks[bb]
            for st in blk["stmts"]:
                if st["k"] != "assign":
                    continue
                pl = st["place"]
                val = self.rvalue(env, st["rv"], sub)
                if isinstance(val, BV):
                    val = val.subst(sub)
                if pl["proj"]:
                    continue
                env[pl["local"]] = val
            t = blk["term"]
            k = t["k"]
            if k in ("goto", "drop", "assert"):
                bb = t["t"]
                continue
            if k == "return":
                self.results.append(Result(list(atoms), list(out), env.get(0), nread, dict(sub)))
                return
            if k == "call":
                info = mir.callee_info(t["callee"])
                name = info["base_key"]
                args = [self.operand(env, a) for a in t["args"]]
                dest = t["dest"]["local"]
                if name == "BinaryOutput::write_u8":
                    if not isinstance(args[1], BV):
                        raise Unsupported("write_u8 of non-bitvector %r" % (args[1],))
                    out.append(args[1])
                    env[dest] = ("unit",)
                elif name == "BinaryOutput::write_bytes":
                    arr = args[1]
                    while isinstance(arr, tuple) and arr[0] == "ref":
                        arr = env.get(arr[1]) if isinstance(arr[1], int) else arr[1]
                    if not (isinstance(arr, tuple) and arr[0] == "array" and all(isinstance(x, BV) for x in arr[1])):
                        raise Unsupported("write_bytes of something that is not a literal byte array: %r" % (arr,))
                    out.extend(arr[1])
                    env[dest] = ("unit",)
                elif name in ("BinaryOutput::write_var_u32",):
                    out.append(("subcall", "write_var_u32", args[1]))
                    env[dest] = ("unit",)
                elif name == "BinaryInput::read_u8":
                    if self.reader_bytes is not None:
                        if nread >= len(self.reader_bytes):
                            # the writer produced fewer bytes than the reader wants: mismatch, reported by the caller
                            self.results.append(Result(list(atoms), list(out), ("underrun",), nread + 1, dict(sub)))
                            return
                        byte = self.reader_bytes[nread]
                    else:
                        byte = BV.var("b%d_" % nread, "u8")
                    nread += 1
                    env[dest] = ("variant", "Ok", [byte])
                elif name == "BinaryInput::read_var_u32":
                    env[dest] = ("variant", "Ok", [self.args.get("$r", BV.var("r", "u32"))])
                elif name == "IntoIterator::into_iter" and isinstance(args[0], tuple) and args[0][0] == "array":
                    # a loop over a literal array: executed concretely (the path bound keeps it finite)
                    env[dest] = ("iter", list(args[0][1]), 0)
                elif name == "IntoIterator::into_iter" and isinstance(args[0], tuple) and args[0][0] == "iter":
                    env[dest] = args[0]
                elif name == "Iterator::next" and isinstance(args[0], tuple) and args[0][0] == "ref" and \
                        isinstance(args[0][1], int) and isinstance(env.get(args[0][1]), tuple) and env[args[0][1]][0] == "iter":
                    _, items, idx = env[args[0][1]]
                    if idx < len(items):
                        env[args[0][1]] = ("iter", items, idx + 1)
                        env[dest] = ("variant", "Some", [items[idx]])
                    else:
                        env[dest] = ("variant", "None", [])
                elif info["key"].endswith("Try>::branch"):
                    a = args[0]
                    if not (isinstance(a, tuple) and a[0] == "variant"):
                        raise Unsupported("Try::branch on %r" % (a,))
                    env[dest] = ("variant", "Continue" if a[1] == "Ok" else "Break", a[2])
                else:
                    raise Unsupported("call of %s inside a varint routine" % info["key"])
                if t["t"] is None:
                    return
                bb = t["t"]
                continue
            if k == "switch":
                op = self.operand(env, t["op"])
                tmap = dict((int(a), b2) for a, b2 in t["targets"])
                if isinstance(op, tuple) and op[0] == "discr":
                    v = op[1]
                    idx = {"Ok": 0, "Continue": 0, "Err": 1, "Break": 1, "None": 0, "Some": 1}.get(v[1]) \
                        if isinstance(v, tuple) and v[0] == "variant" else None
                    if idx is None:
                        raise Unsupported("switch on discriminant of %r" % (v,))
                    bb = tmap.get(idx, t["otherwise"])
                    continue
                if isinstance(op, BV) and op.ty == "bool" and op.is_const():
                    bb = tmap.get(op.value(), t["otherwise"])
                    continue
                if isinstance(op, tuple) and op[0] == "iszero":
                    _, vec, negate = op
                    vec = vec.subst(sub)
                    if vec.has_top():
                        raise Unsupported("branch on a value outside the bit domain")
                    for truth in (True, False):
                        boolval = truth ^ negate
                        tgt = tmap.get(1 if boolval else 0, t["otherwise"])
                        nz = [b for b in vec.bits if b != ZERO]
                        if not nz:
                            if not truth:
                                continue       # vector is identically zero: only the true edge is feasible
                            self._explore(tgt, dict(env), atoms + [(vec, True)], list(out), nread, dict(sub), steps)
                            continue
                        if any(b[1] == frozenset() and b[0] == 1 for b in nz) and truth:
                            continue           # a bit is the constant 1: cannot be all zero
                        s2 = dict(sub)
                        if truth:
                            for b in nz:
                                if len(b[1]) != 1:
                                    raise Unsupported("cannot substitute a non-singleton bit %r" % (b,))
                                (v,) = tuple(b[1])
                                s2[v] = b[0]          # v xor c == 0  ->  v = c
                        elif len(nz) == 1 and len(nz[0][1]) == 1:
                            (v,) = tuple(nz[0][1])
                            s2[v] = nz[0][0] ^ 1      # single bit not zero -> bit is one
                        e2 = {kk: (vv.subst(s2) if isinstance(vv, BV) else vv) for kk, vv in env.items()}
                        o2 = [(x.subst(s2) if isinstance(x, BV) else x) for x in out]
                        self._explore(tgt, e2, atoms + [(vec, truth)], o2, nread, s2, steps)
                    return
                raise Unsupported("switch on %r" % (op,))
            raise Unsupported("terminator " + k)

"""GF(2)-affine bit-vector abstract interpretation of loop-free shift/mask code (the four varint routines).

A bit is TOP or (c, frozenset(vars)) meaning c xor the xor of the variables.  Values of width n are lists of n bits,
LSB first.  Path atoms are "all bits of vector V are zero" with its truth value; taking the true edge substitutes 0 for
the variables involved when each bit of V is a single variable or a constant (exact); otherwise the analysis fails
closed (Unsupported)."""
from . import mir

TOP = "T"
ZERO = (0, frozenset())
ONE = (1, frozenset())
WIDTH = {"u8": 8, "i8": 8, "u16": 16, "i16": 16, "u32": 32, "i32": 32, "u64": 64, "i64": 64, "usize": 64, "isize": 64,
         "bool": 1}
SIGNED = {"i8", "i16", "i32", "i64", "isize"}


class Unsupported(Exception):
    pass


def bvar(name):
    return (0, frozenset([name]))


def bxor(a, b):
    if a == TOP or b == TOP:
        return TOP
    return (a[0] ^ b[0], a[1] ^ b[1])


def band(a, b):
    if a == ZERO or b == ZERO:
        return ZERO
    if a == ONE:
        return b
    if b == ONE:
        return a
    if a == b and a != TOP:
        return a
    return TOP


def bor(a, b):
    if a == ONE or b == ONE:
        return ONE
    if a == ZERO:
        return b
    if b == ZERO:
        return a
    if a == b and a != TOP:
        return a
    return TOP


class BV:
    __slots__ = ("bits", "ty")

    def __init__(self, bits, ty):
        self.bits = list(bits)
        self.ty = ty

    @staticmethod
    def const(v, ty):
        n = WIDTH[ty]
        return BV([(ONE if (v >> i) & 1 else ZERO) for i in range(n)], ty)

    @staticmethod
    def var(prefix, ty):
        return BV([bvar("%s%d" % (prefix, i)) for i in range(WIDTH[ty])], ty)

    def is_const(self):
        return all(b != TOP and not b[1] for b in self.bits)

    def value(self):
        return sum(b[0] << i for i, b in enumerate(self.bits))

    def has_top(self):
        return any(b == TOP for b in self.bits)

    def subst(self, sub):
        out = []
        for b in self.bits:
            if b == TOP:
                out.append(TOP)
                continue
            c, vs = b
            nv = set()
            for v in vs:
                if v in sub:
                    c ^= sub[v]
                else:
                    nv.add(v)
            out.append((c, frozenset(nv)))
        return BV(out, self.ty)

    def __eq__(self, other):
        return isinstance(other, BV) and self.bits == other.bits

    def __repr__(self):
        def s(b):
            if b == TOP:
                return "T"
            if not b[1]:
                return str(b[0])
            return ("~" if b[0] else "") + "^".join(sorted(b[1]))
        return "%s[%s]" % (self.ty, " ".join(s(b) for b in self.bits))


def shl(a, k):
    n = len(a.bits)
    return BV([ZERO] * min(k, n) + a.bits[:max(0, n - k)], a.ty)


def shr(a, k):
    n = len(a.bits)
    fill = a.bits[-1] if a.ty in SIGNED else ZERO
    return BV(a.bits[k:] + [fill] * min(k, n), a.ty)


def cast(a, to):
    n = WIDTH[to]
    bits = a.bits[:n]
    if len(bits) < n:
        fill = a.bits[-1] if a.ty in SIGNED else ZERO
        bits = bits + [fill] * (n - len(bits))
    return BV(bits, to)


def neg(a):
    """two's complement negation; exact only when bits 1.. are known zero (result = bit 0 replicated)"""
    if all(b == ZERO for b in a.bits[1:]):
        return BV([a.bits[0]] * len(a.bits), a.ty)
    return BV([TOP] * len(a.bits), a.ty)


def pow2_split(c, width):
    """for a constant c return k when c == 2^k (0 <= k <= width)"""
    if c > 0 and c & (c - 1) == 0:
        return c.bit_length() - 1
    return None


class Result:
    def __init__(self, atoms, out, ret, nread, sub):
        self.atoms = atoms      # list of (BV, truth)
        self.out = out          # emitted bytes (BV u8) / ('subcall', name, BV)
        self.ret = ret
        self.nread = nread
        self.sub = sub          # variable -> 0/1 substitution taken on this path


def _copyval(v):
    if isinstance(v, list):
        return [_copyval(x) for x in v]
    if isinstance(v, tuple) and v and v[0] in ("array", "tuple", "variant") and isinstance(v[-1], list):
        return v[:-1] + ([_copyval(x) for x in v[-1]],)
    return v


def _copyenv(env):
    return {k: _copyval(v) for k, v in env.items()}


class St:
    """path state"""
    __slots__ = ("atoms", "out", "nread", "sub", "steps")

    def __init__(self, atoms=None, out=None, nread=0, sub=None, steps=0):
        self.atoms = atoms or []
        self.out = out or []
        self.nread = nread
        self.sub = sub or {}
        self.steps = steps

    def fork(self):
        return St(list(self.atoms), list(self.out), self.nread, dict(self.sub), self.steps)


def _parse_len(n):
    import re
    m = re.match(r"^(\d+)", str(n))
    return int(m.group(1)) if m else None


class Interp:
    """Interpreter for loop-bounded shift/mask code: symbolic in the value bits, concrete in lengths / indices / loop
    counters.  Local private helpers are interpreted too (crate given).  Forks happen only on `all these bits are zero`."""

    def __init__(self, body, args, reader_bytes=None, sub=None, crate=None):
        self.b = body
        self.args = args
        self.reader_bytes = reader_bytes
        self.init_sub = dict(sub or {})
        self.crate = crate

    def run(self):
        env = {k: v for k, v in self.args.items() if isinstance(k, int)}
        res = []
        for ret, st in self._explore(self.b, 0, env, St(sub=dict(self.init_sub)), 0):
            res.append(Result(st.atoms, st.out, ret, st.nread, st.sub))
        return res

    # --------------------------------------------------------------------------------------------
    def operand(self, body, env, o):
        if "const" in o:
            c = o["const"]
            if c.get("fn"):
                return ("fnitem", mir.callee_info(c["fn"])["def"])
            ty = c["ty"].get("n") or c["ty"]["k"]
            if c.get("elems") is not None and c["ty"].get("k") == "array":
                et = c["ty"]["t"].get("n") or c["ty"]["t"].get("k")
                if et in WIDTH:
                    return ("array", [BV.const(int(v) & ((1 << WIDTH[et]) - 1), et) for v in c["elems"]])
            if c["val"] is None or ty not in WIDTH:
                return ("opaque", c["s"])
            v = int(c["val"])
            return BV.const(v & ((1 << WIDTH[ty]) - 1), ty)
        return self.read(body, env, mir.op_place(o))

    def _deref(self, env, cur):
        if isinstance(cur, tuple) and cur[0] == "ref":
            return env.get(cur[1], ("unk", cur[1])) if isinstance(cur[1], int) else cur[1]
        if isinstance(cur, tuple) and cur[0] == "elemref":
            arr = env.get(cur[1])
            if isinstance(arr, tuple) and arr[0] == "array" and cur[2] < len(arr[1]):
                return arr[1][cur[2]]
        return ("proj", cur, "deref")

    def read(self, body, env, p):
        cur = env.get(p["local"], ("unk", p["local"]))
        for pr in p["proj"]:
            k = pr["p"]
            if k == "field" and isinstance(cur, tuple) and cur[0] in ("tuple", "variant", "closure"):
                cur = cur[-1][pr["i"]]
            elif k == "downcast":
                pass
            elif k == "deref":
                cur = self._deref(env, cur)
            elif k in ("index", "constindex"):
                if k == "index":
                    iv = env.get(pr["local"])
                    idx = iv.value() if isinstance(iv, BV) and iv.is_const() else None
                else:
                    idx = pr["offset"] if not pr.get("from_end") else None
                items = cur[-1] if isinstance(cur, tuple) and cur[0] in ("array", "slice") else None
                if idx is None or items is None or idx >= len(items):
                    raise Unsupported("indexing with a non-constant or out-of-range index")
                cur = items[idx]
            else:
                cur = ("proj", cur, k)
        return cur

    def write(self, body, env, p, val):
        if not p["proj"]:
            env[p["local"]] = val
            return
        # resolve the container to mutate
        base_local = p["local"]
        cur = env.get(base_local)
        projs = list(p["proj"])
        # follow leading derefs of references to locals
        while projs and projs[0]["p"] == "deref" and isinstance(cur, tuple) and cur[0] == "ref" and isinstance(cur[1], int):
            base_local = cur[1]
            cur = env.get(base_local)
            projs = projs[1:]
        if not projs:
            env[base_local] = val
            return
        if len(projs) == 1 and projs[0]["p"] == "deref" and isinstance(cur, tuple) and cur[0] == "elemref":
            arr = env.get(cur[1])
            if isinstance(arr, tuple) and arr[0] == "array" and cur[2] < len(arr[1]):
                arr[1][cur[2]] = val          # `*slot = v` for a slot handed out by iter_mut()
                return
            raise Unsupported("store through a stale element reference")
        if len(projs) == 1 and projs[0]["p"] in ("index", "constindex") and isinstance(cur, tuple) and cur[0] == "array":
            pr = projs[0]
            if pr["p"] == "index":
                iv = env.get(pr["local"])
                idx = iv.value() if isinstance(iv, BV) and iv.is_const() else None
            else:
                idx = pr["offset"]
            if idx is None or idx >= len(cur[1]):
                raise Unsupported("array store with a non-constant or out-of-range index")
            cur[1][idx] = val
            return
        if len(projs) == 1 and projs[0]["p"] == "field" and isinstance(cur, tuple) and cur[0] in ("tuple", "variant"):
            cur[-1][projs[0]["i"]] = val
            return
        # other projected stores (e.g. into `self`) are irrelevant for the value flow
        return

    def rvalue(self, body, env, rv, st):
        k = rv["rv"]
        if k == "use":
            return _copyval(self.operand(body, env, rv["x"]))
        if k in ("ref", "rawptr"):
            p = rv["place"]
            if not p["proj"]:
                return ("ref", p["local"])
            if len(p["proj"]) == 1 and p["proj"][0]["p"] == "deref":
                base = env.get(p["local"])
                if isinstance(base, tuple) and base[0] == "ref":
                    return base             # reborrow
            return ("ref", self.read(body, env, p))
        if k == "cast":
            x = self.operand(body, env, rv["x"])
            if "PointerCoercion" in rv["kind"] or rv["kind"] in ("PtrToPtr", "Transmute"):
                return x
            to = rv["to"].get("n") or rv["to"].get("k")
            if isinstance(x, BV) and to in WIDTH and rv["kind"] == "IntToInt":
                return cast(x, to)
            return ("opaque", "cast " + rv["kind"])
        if k == "bin":
            l, r = self.operand(body, env, rv["l"]), self.operand(body, env, rv["r"])
            op = rv["op"]
            if op.endswith("WithOverflow"):
                return ("tuple", [self._bin(op[:-12], l, r), BV.const(0, "bool")])
            return self._bin(op, l, r)
        if k == "un":
            x = self.operand(body, env, rv["x"])
            if rv["op"] == "PtrMetadata":
                v = self._deref(env, x) if isinstance(x, tuple) and x[0] == "ref" else x
                if isinstance(v, tuple) and v[0] in ("array", "slice"):
                    return BV.const(len(v[-1]), "usize")
                return ("opaque", "len")
            if rv["op"] == "Neg" and isinstance(x, BV):
                return neg(x)
            if rv["op"] == "Not" and isinstance(x, BV):
                return BV([bxor(b, ONE) for b in x.bits], x.ty)
            if rv["op"] == "Not" and isinstance(x, tuple) and x[0] == "iszero":
                return ("iszero", x[1], not x[2])
            return ("opaque", rv["op"])
        if k == "agg":
            fs = [_copyval(self.operand(body, env, f)) for f in rv["fields"]]
            if rv["kind"] == "array":
                return ("array", fs)
            if rv["kind"] == "tuple":
                return ("tuple", fs)
            if rv["kind"] == "adt":
                return ("variant", rv["variant"], fs)
            if rv["kind"] == "closure":
                # captures by reference are snapshotted: the captured locals of a varint routine are not mutated afterwards
                caps = [("ref", _copyval(env.get(f[1]))) if isinstance(f, tuple) and f[0] == "ref" and isinstance(f[1], int)
                        else f for f in fs]
                return ("closure", rv["def"], caps)
        if k == "repeat":
            n = _parse_len(rv["n"])
            x = self.operand(body, env, rv["x"])
            if n is None or n > 64:
                raise Unsupported("array repeat with unknown length %r" % (rv["n"],))
            return ("array", [_copyval(x) for _ in range(n)])
        if k == "discr":
            return ("discr", self.read(body, env, rv["place"]))
        return ("opaque", k)

    def _bin(self, op, l, r):
        # number of significant bits: BITS - x.leading_zeros()
        if op == "Sub" and isinstance(l, BV) and l.is_const() and isinstance(r, tuple) and r[0] == "lz" and \
                l.value() == len(r[1].bits):
            return ("width", r[1])
        if op in ("Lt", "Le", "Gt", "Ge") and ((isinstance(l, tuple) and l[0] == "width" and isinstance(r, BV) and r.is_const()) or
                                                (isinstance(r, tuple) and r[0] == "width" and isinstance(l, BV) and l.is_const())):
            if isinstance(l, tuple):
                x, c, o = l[1], r.value(), op
            else:
                x, c, o = r[1], l.value(), {"Lt": "Gt", "Le": "Ge", "Gt": "Lt", "Ge": "Le"}[op]
            # normalise to `width <= c` / `width >= c`
            if o == "Lt":
                o, c = "Le", c - 1
            elif o == "Gt":
                o, c = "Ge", c + 1
            n = len(x.bits)
            if o == "Le":
                if c < 0:
                    return BV.const(0, "bool")
                if c >= n:
                    return BV.const(1, "bool")
                return ("iszero", shr(x, c), False)            # width <= c  <=>  x < 2^c
            if c <= 0:
                return BV.const(1, "bool")
            if c > n:
                return BV.const(0, "bool")
            return ("iszero", shr(x, c - 1), True)             # width >= c  <=>  x >= 2^(c-1)
        if not (isinstance(l, BV) and isinstance(r, BV)):
            return ("opaque", op)
        if op in ("Shl", "Shr") and r.is_const():
            return shl(l, r.value()) if op == "Shl" else shr(l, r.value())
        if op in ("BitAnd", "BitOr", "BitXor"):
            f = {"BitAnd": band, "BitOr": bor, "BitXor": bxor}[op]
            return BV([f(a, b) for a, b in zip(l.bits, r.bits)], l.ty)
        if op in ("Add", "Sub", "Mul") and l.is_const() and r.is_const():
            a, b = l.value(), r.value()
            v = {"Add": a + b, "Sub": a - b, "Mul": a * b}[op]
            return BV.const(v & ((1 << WIDTH[l.ty]) - 1), l.ty)
        if op in ("Eq", "Ne"):
            if l.is_const() and r.is_const():
                return BV.const(1 if (l.value() == r.value()) == (op == "Eq") else 0, "bool")
            for x, y in ((l, r), (r, l)):
                if y.is_const() and y.value() == 0:
                    return ("iszero", x, op == "Ne")
        if op in ("Lt", "Le", "Gt", "Ge"):
            if l.is_const() and r.is_const() and l.ty not in SIGNED:
                a, b = l.value(), r.value()
                res = {"Lt": a < b, "Le": a <= b, "Gt": a > b, "Ge": a >= b}[op]
                return BV.const(1 if res else 0, "bool")
            if l.ty not in SIGNED:
                x, c, o = None, None, op
                if r.is_const():
                    x, c = l, r.value()
                elif l.is_const():
                    x, c = r, l.value()
                    o = {"Lt": "Gt", "Le": "Ge", "Gt": "Lt", "Ge": "Le"}[op]
                if x is not None:
                    if o == "Le":
                        o, c = "Lt", c + 1
                    elif o == "Gt":
                        o, c = "Ge", c + 1
                    k = pow2_split(c, len(x.bits))
                    if k is not None:
                        return ("iszero", shr(x, k), o == "Ge")
                    raise Unsupported("comparison of a wire value with %d (0x%x): not a power-of-two group boundary, so it "
                                      "cannot delimit a 7-bit varint width class" % (c, c))
        return ("opaque", op)

    # --------------------------------------------------------------------------------------------
    def _closure_of(self, env, x):
        v = x
        for _ in range(4):
            if isinstance(v, tuple) and v[0] == "ref":
                v = self._deref(env, v)
            else:
                break
        return v if isinstance(v, tuple) and v[0] == "closure" else None

    def _slice_of(self, env, x):
        """list of items of an array / slice value reached through references"""
        v = x
        for _ in range(4):
            if isinstance(v, tuple) and v[0] == "ref":
                v = self._deref(env, v)
            else:
                break
        if isinstance(v, tuple) and v[0] in ("array", "slice"):
            return v[-1]
        return None

    def _explore(self, body, bb, env, st, depth):
        """returns list of (return value, state)"""
        blocks = body.blocks
        while True:
            st.steps += 1
            if st.steps > 4000:
                raise Unsupported("path too long (unbounded loop?) in %s" % body.key)
            blk = blocks[bb]
            for s_ in blk["stmts"]:
                if s_["k"] != "assign":
                    continue
                val = self.rvalue(body, env, s_["rv"], st)
                if isinstance(val, BV):
                    val = val.subst(st.sub)
                self.write(body, env, s_["place"], val)
            t = blk["term"]
            k = t["k"]
            if k in ("goto", "drop", "assert"):
                bb = t["t"]
                continue
            if k == "return":
                return [(env.get(0), st)]
            if k == "call":
                info = mir.callee_info(t["callee"])
                name = info["base_key"]
                args = [self.operand(body, env, a) for a in t["args"]]
                dest = t["dest"]
                res = None
                if name == "BinaryOutput::write_u8":
                    if not isinstance(args[1], BV):
                        raise Unsupported("write_u8 of non-bitvector %r" % (args[1],))
                    st.out.append(args[1])
                    res = ("unit",)
                elif name == "BinaryOutput::write_bytes":
                    items = self._slice_of(env, args[1])
                    if items is None or not all(isinstance(x, BV) for x in items):
                        raise Unsupported("write_bytes of something that is not a literal byte array")
                    st.out.extend(items)
                    res = ("unit",)
                elif name == "BinaryOutput::write_var_u32":
                    st.out.append(("subcall", "write_var_u32", args[1]))
                    res = ("unit",)
                elif name == "BinaryInput::read_u8":
                    if self.reader_bytes is not None:
                        if st.nread >= len(self.reader_bytes):
                            st.nread += 1
                            return [(("underrun",), st)]
                        byte = self.reader_bytes[st.nread]
                    else:
                        byte = BV.var("b%d_" % st.nread, "u8")
                    st.nread += 1
                    res = ("variant", "Ok", [byte])
                elif name == "BinaryInput::read_var_u32":
                    res = ("variant", "Ok", [self.args.get("$r", BV.var("r", "u32"))])
                elif info["key"].endswith("Try>::branch"):
                    a = args[0]
                    if not (isinstance(a, tuple) and a[0] == "variant"):
                        raise Unsupported("Try::branch on %r" % (a,))
                    res = ("variant", "Continue" if a[1] in ("Ok", "Some") else "Break", a[2])
                elif name == "IntoIterator::into_iter":
                    items = self._slice_of(env, args[0]) if not (isinstance(args[0], tuple) and args[0][0] in ("iter", "range")) else None
                    if isinstance(args[0], tuple) and args[0][0] in ("iter", "range"):
                        res = args[0]
                    elif isinstance(args[0], tuple) and args[0][0] == "variant" and args[0][1] in ("Range", "RangeInclusive"):
                        lo, hi = args[0][2][0], args[0][2][1]
                        if not (isinstance(lo, BV) and isinstance(hi, BV) and lo.is_const() and hi.is_const()):
                            raise Unsupported("loop over a non-constant range")
                        end = hi.value() + (1 if args[0][1] == "RangeInclusive" else 0)
                        res = ("iter", [BV.const(i, lo.ty) for i in range(lo.value(), end)], 0)
                    elif items is not None:
                        res = ("iter", list(items), 0)
                    else:
                        raise Unsupported("loop over %r" % (args[0],))
                elif name in ("RangeInclusive<Idx>::new",) or info["key"].startswith("RangeInclusive<Idx>::new"):
                    res = ("variant", "RangeInclusive", [args[0], args[1]])
                elif name == "Iterator::next" and isinstance(args[0], tuple) and args[0][0] == "ref" and \
                        isinstance(args[0][1], int) and isinstance(env.get(args[0][1]), tuple) and env[args[0][1]][0] == "iter":
                    _, items, idx = env[args[0][1]]
                    if idx < len(items):
                        env[args[0][1]] = ("iter", items, idx + 1)
                        res = ("variant", "Some", [items[idx]])
                    else:
                        res = ("variant", "None", [])
                elif "Index" in info["key"] and len(args) == 2:
                    items = self._slice_of(env, args[0])
                    r = args[1]
                    if items is None:
                        raise Unsupported("indexing of %r" % (args[0],))
                    if isinstance(r, BV) and r.is_const():
                        res = ("ref", items[r.value()])
                    elif isinstance(r, tuple) and r[0] == "variant" and r[1].startswith("Range"):
                        def c(x):
                            if not (isinstance(x, BV) and x.is_const()):
                                raise Unsupported("slice bound is not a constant")
                            return x.value()
                        fs = r[2]
                        lo, hi = 0, len(items)
                        if r[1] == "RangeTo":
                            hi = c(fs[0])
                        elif r[1] == "RangeToInclusive":
                            hi = c(fs[0]) + 1
                        elif r[1] == "RangeFrom":
                            lo = c(fs[0])
                        elif r[1] == "Range":
                            lo, hi = c(fs[0]), c(fs[1])
                        elif r[1] == "RangeInclusive":
                            lo, hi = c(fs[0]), c(fs[1]) + 1
                        if hi > len(items) or lo > hi:
                            raise Unsupported("slice bounds out of range")
                        res = ("ref", ("slice", items[lo:hi]))
                    else:
                        raise Unsupported("indexing with %r" % (r,))
                elif name in ("From::from", "Into::into") and len(args) == 1 and isinstance(args[0], BV):
                    to = t["dest"]["ty"].get("n")
                    if to in WIDTH and WIDTH[to] >= len(args[0].bits) and args[0].ty not in SIGNED:
                        res = cast(args[0], to)
                    else:
                        raise Unsupported("conversion %s" % info["key"])
                elif info["key"] in ("i32::wrapping_neg", "u32::wrapping_neg", "i8::wrapping_neg") and isinstance(args[0], BV):
                    res = neg(args[0])
                elif info["key"] in ("Result<T, E>::map", "Option<T>::map") and isinstance(args[0], tuple) and args[0][0] == "variant" \
                        and self.crate is not None and depth < 4 and isinstance(args[1], tuple) and \
                        (args[1][0] == "fnitem" or self._closure_of(env, args[1]) is not None):
                    # x.map(f): f applied to the payload of Ok / Some, Err / None passed through
                    if args[0][1] not in ("Ok", "Some"):
                        res = args[0]
                    else:
                        clos = self._closure_of(env, args[1])
                        callee = self.crate.bodies.get(args[1][1] if args[1][0] == "fnitem" else clos[1])
                        if callee is None:
                            raise Unsupported("map with an unknown function inside a varint routine")
                        if clos is not None:
                            cenv = {1: ("ref", clos) if callee.locals[1]["ty"].get("k") == "ref" else clos, 2: _copyval(args[0][2][0])}
                        else:
                            cenv = {1: _copyval(args[0][2][0])}
                        outs = []
                        for ret, st2 in self._explore(callee, 0, cenv, st, depth + 1):
                            e2 = _copyenv(env)
                            self.write(body, e2, dest, ("variant", args[0][1], [ret]))
                            if t["t"] is not None:
                                outs.extend(self._explore(body, t["t"], e2, st2, depth))
                        return outs
                elif info["key"].split("::")[-1] == "iter_mut" and isinstance(args[0], tuple) and args[0][0] == "ref" and \
                        isinstance(args[0][1], int) and isinstance(env.get(args[0][1]), tuple) and env[args[0][1]][0] == "array":
                    n_ = len(env[args[0][1]][1])
                    res = ("iter", [("elemref", args[0][1], i) for i in range(n_)], 0)
                elif name == "Iterator::take" and isinstance(args[0], tuple) and args[0][0] == "iter" and \
                        isinstance(args[1], BV) and args[1].is_const():
                    res = ("iter", args[0][1][args[0][2]:args[0][2] + args[1].value()], 0)
                elif info["key"].endswith("::leading_zeros") and isinstance(args[0], BV) and args[0].ty not in SIGNED:
                    res = ("lz", args[0])
                elif name in ("Fn::call", "FnMut::call_mut", "FnOnce::call_once") and self._closure_of(env, args[0]) is not None \
                        and self.crate is not None and depth < 4:
                    clos = self._closure_of(env, args[0])
                    callee = self.crate.bodies.get(clos[1])
                    if callee is None:
                        raise Unsupported("call of an unknown closure inside a varint routine")
                    tup = args[1] if len(args) > 1 else ("tuple", [])
                    elems = tup[-1] if isinstance(tup, tuple) and tup[0] == "tuple" else [tup]
                    first = ("ref", clos) if callee.locals[1]["ty"].get("k") == "ref" else clos
                    cenv = {1: first}
                    for i, a in enumerate(elems):
                        cenv[i + 2] = _copyval(a)
                    outs = []
                    for ret, st2 in self._explore(callee, 0, cenv, st, depth + 1):
                        e2 = _copyenv(env)
                        self.write(body, e2, dest, ret)
                        if t["t"] is not None:
                            outs.extend(self._explore(body, t["t"], e2, st2, depth))
                    return outs
                elif self.crate is not None and info["def"] in self.crate.bodies and depth < 3 and not info["trait"]:
                    callee = self.crate.bodies[info["def"]]
                    cenv = {i + 1: _copyval(a) for i, a in enumerate(args)}
                    outs = []
                    for ret, st2 in self._explore(callee, 0, cenv, st, depth + 1):
                        e2 = _copyenv(env)
                        self.write(body, e2, dest, ret)
                        if t["t"] is not None:
                            outs.extend(self._explore(body, t["t"], e2, st2, depth))
                    return outs
                else:
                    raise Unsupported("call of %s inside a varint routine" % info["key"])
                self.write(body, env, dest, res)
                if t["t"] is None:
                    return []
                bb = t["t"]
                continue
            if k == "switch":
                op = self.operand(body, env, t["op"])
                tmap = dict((int(a), b2) for a, b2 in t["targets"])
                if isinstance(op, tuple) and op[0] == "discr":
                    v = op[1]
                    idx = {"Ok": 0, "Continue": 0, "Err": 1, "Break": 1, "None": 0, "Some": 1}.get(v[1]) \
                        if isinstance(v, tuple) and v[0] == "variant" else None
                    if idx is None:
                        raise Unsupported("switch on discriminant of %r" % (v,))
                    bb = tmap.get(idx, t["otherwise"])
                    continue
                if isinstance(op, BV) and op.is_const():
                    bb = tmap.get(op.value(), t["otherwise"])
                    continue
                if isinstance(op, tuple) and op[0] == "iszero":
                    _, vec, negate = op
                    vec = vec.subst(st.sub)
                    if vec.has_top():
                        raise Unsupported("branch on a value outside the bit domain")
                    outs = []
                    for truth in (True, False):
                        boolval = truth ^ negate
                        tgt = tmap.get(1 if boolval else 0, t["otherwise"])
                        nz = [b for b in vec.bits if b != ZERO]
                        if not nz:
                            if truth:
                                s2 = st.fork()
                                s2.atoms.append((vec, True))
                                outs.extend(self._explore(body, tgt, _copyenv(env), s2, depth))
                            continue
                        if truth and any(b[1] == frozenset() and b[0] == 1 for b in nz):
                            continue
                        s2 = st.fork()
                        if truth:
                            for b in nz:
                                if len(b[1]) != 1:
                                    raise Unsupported("cannot substitute a non-singleton bit %r" % (b,))
                                (v,) = tuple(b[1])
                                s2.sub[v] = b[0]
                        elif len(nz) == 1 and len(nz[0][1]) == 1:
                            (v,) = tuple(nz[0][1])
                            s2.sub[v] = nz[0][0] ^ 1
                        # a path on which an earlier `not all zero` vector has become identically zero is infeasible
                        if any((not tr) and all(b == ZERO for b in v0.subst(s2.sub).bits) for v0, tr in s2.atoms):
                            continue
                        s2.atoms.append((vec, truth))
                        e2 = {kk: self._subst_val(vv, s2.sub) for kk, vv in _copyenv(env).items()}
                        s2.out = [(x.subst(s2.sub) if isinstance(x, BV) else x) for x in s2.out]
                        outs.extend(self._explore(body, tgt, e2, s2, depth))
                    return outs
                raise Unsupported("switch on %r" % (op,))
            raise Unsupported("terminator " + k)

    def _subst_val(self, v, sub):
        if isinstance(v, BV):
            return v.subst(sub)
        if isinstance(v, list):
            return [self._subst_val(x, sub) for x in v]
        if isinstance(v, tuple) and v and v[0] in ("array", "tuple", "variant", "slice", "iter") and len(v) >= 2:
            return tuple(self._subst_val(x, sub) if isinstance(x, (list, BV)) else x for x in v)
        return v

"""Analysis context: cached fact extraction keyed by the content of /repo and of the engines."""
import fcntl
import hashlib
import json
import os
import shutil
import subprocess
import sys
import time

from .facts import Program

VERIF = os.environ.get("VERIF_HOME") or os.path.dirname(os.path.dirname(os.path.dirname(os.path.abspath(__file__))))
REPO = os.environ.get("VERIF_REPO", "/repo")
CACHE = os.path.join(VERIF, ".cache")

FEATURE_SETS = {
    "default": [],
    "none": ["--no-default-features"],
    "bigdecimal": ["--no-default-features", "--features", "bigdecimal"],
    # `chrono` alone does not build on this tree (features/chrono.rs imports bigdecimal::FromPrimitive): not a configuration
    "chrono_bigdecimal": ["--no-default-features", "--features", "chrono,bigdecimal"],
    "uuid": ["--no-default-features", "--features", "uuid"],
}


def _hash_tree(root, h, rel_filter=None):
    try:
        out = subprocess.run(["git", "-C", root, "ls-files", "-co", "--exclude-standard", "-z"], capture_output=True,
                             check=True).stdout.split(b"\0")
        files = sorted(f.decode() for f in out if f)
    except Exception:
        files = []
        for dp, dn, fn in os.walk(root):
            dn[:] = [d for d in dn if d not in ("target", ".git")]
            for f in fn:
                files.append(os.path.relpath(os.path.join(dp, f), root))
        files.sort()
    for f in files:
        if rel_filter and not rel_filter(f):
            continue
        p = os.path.join(root, f)
        if not os.path.isfile(p):
            continue
        h.update(f.encode())
        h.update(b"\0")
        h.update(open(p, "rb").read())
        h.update(b"\0")


def _hash_subs(h, subs):
    for sub in subs:
        p = os.path.join(VERIF, sub)
        if os.path.isdir(p):
            for dp, dn, fn in sorted(os.walk(p)):
                dn[:] = sorted(d for d in dn if d != "target")
                for f in sorted(fn):
                    if f.endswith((".rs", ".toml", ".sh")):
                        h.update(f.encode())
                        h.update(open(os.path.join(dp, f), "rb").read())
        elif os.path.isfile(p):
            h.update(open(p, "rb").read())


def tree_hash():
    """state of /repo + the fact extractor"""
    h = hashlib.sha256()
    _hash_tree(REPO, h)
    _hash_subs(h, ("engine/mirdump/src", "engine/extract.sh"))
    return h.hexdigest()[:20]


def sub_hash(*subs):
    h = hashlib.sha256()
    _hash_subs(h, subs)
    return h.hexdigest()[:10]


class ExtractionFailed(Exception):
    """the analysed program (the repository, or a harness crate of /verif compiled against it) does not build"""

    def __init__(self, ws, args, errors):
        self.ws, self.args, self.errors = ws, args, errors
        Exception.__init__(self, "does not compile: %s %s\n%s" % (ws, " ".join(args), errors))


class Analysis:
    def __init__(self, tier="quick"):
        self.tier = tier
        self.hash = tree_hash()
        self.dir = os.path.join(CACHE, self.hash)
        os.makedirs(self.dir, exist_ok=True)
        self._programs = {}
        self._gc()

    def _gc(self):
        """Keep the cache bounded: drop entries of other tree states beyond the newest 6 that are older than 3 hours
        (parallel runs on scratch copies create many short-lived entries; they are removed by their driver)."""
        try:
            now = time.time()
            ents = [(os.path.getmtime(os.path.join(CACHE, d)), d) for d in os.listdir(CACHE)
                    if os.path.isdir(os.path.join(CACHE, d)) and d != os.path.basename(self.dir) and len(d) == 20]
            ents.sort(reverse=True)
            for mt, d in ents[6:]:
                if now - mt > 3 * 3600:
                    shutil.rmtree(os.path.join(CACHE, d), ignore_errors=True)
        except Exception:
            pass

    # -------------------------------------------------------------------------------------------
    def _step(self, name, fn):
        """Run `fn(outdir)` once per cache entry, under a lock; returns outdir."""
        out = os.path.join(self.dir, name)
        done = out + ".done"
        if os.path.exists(done):
            return out
        lock = open(os.path.join(self.dir, name + ".lock"), "w")
        fcntl.flock(lock, fcntl.LOCK_EX)
        try:
            if os.path.exists(done):
                return out
            if os.path.exists(out):
                shutil.rmtree(out)
            os.makedirs(out)
            t0 = time.time()
            fn(out)
            open(done, "w").write("%.1f\n" % (time.time() - t0))
            sys.stderr.write("[extract] %s: %.1fs\n" % (name, time.time() - t0))
            return out
        finally:
            fcntl.flock(lock, fcntl.LOCK_UN)
            lock.close()

    def _extract(self, ws, out, args):
        r = subprocess.run([os.path.join(VERIF, "engine", "extract.sh"), ws, out] + args, capture_output=True, text=True)
        if r.returncode != 0:
            log = ""
            try:
                log = open(os.path.join(out, "cargo.log")).read()
            except OSError:
                log = (r.stdout or "") + (r.stderr or "")
            errs = [ln for ln in log.splitlines() if ln.startswith(("error", "  -->", "   -->"))][:12]
            raise ExtractionFailed(ws, args, "\n".join(errs) or log[-1500:])

    def facts_dir(self, features="default"):
        if features == "default":
            return self._step("facts-default", lambda out: self._extract(REPO, out, ["--workspace", "--all-targets"]))
        return self._step("facts-" + features,
                          lambda out: self._extract(REPO, out, ["-p", "desert_core", "--lib"] + FEATURE_SETS[features]))

    def program(self, features="default"):
        if features not in self._programs:
            self._programs[features] = Program(self.facts_dir(features))
        return self._programs[features]

    def core(self, features="default"):
        """The desert_core library crate (non-test build)."""
        return self.program(features).crate("desert_core", False)

    def _ws_copy(self, name, out):
        """copy a harness crate of /verif into the cache and point its path dependencies at the analysed repo"""
        src = os.path.join(VERIF, name)
        ws = os.path.join(out, "ws")
        shutil.copytree(src, ws, ignore=shutil.ignore_patterns("target", "Cargo.lock"))
        ct = os.path.join(ws, "Cargo.toml")
        text = open(ct).read().replace('"/repo/', '"%s/' % REPO)
        open(ct, "w").write(text)
        shutil.copy(os.path.join(REPO, "Cargo.lock"), os.path.join(ws, "Cargo.lock"))
        return ws

    def corpus_dir(self):
        def run(out):
            ws = self._ws_copy("corpus", out)
            self._extract(ws, os.path.join(out, "facts"), ["--all-targets"])
        return os.path.join(self._step("corpus-ws-" + sub_hash("corpus"), run), "facts")

    def corpus(self):
        if "corpus" not in self._programs:
            self._programs["corpus"] = Program(self.corpus_dir())
        return self._programs["corpus"]

    def summary(self):
        out = {"repo_tree_hash": self.hash, "units": []}
        for name, prog in self._programs.items():
            for c in prog.crates:
                out["units"].append({"extraction": name, "crate": c.label(), "cfg": c.cfg, "bodies": len(c.bodies),
                                     "impls": len(c.items["impls"]), "adts": len(c.items["adts"])})
        return out

    def tool_json(self, name, argv_fn):
        """Run an engine binary producing JSON on stdout once; cached."""
        def run(out):
            r = subprocess.run(argv_fn(), capture_output=True, text=True)
            if r.returncode != 0:
                sys.stderr.write(r.stderr[-3000:])
                raise SystemExit("engine %s failed" % name)
            open(os.path.join(out, "out.json"), "w").write(r.stdout)
        d = self._step(name, run)
        return json.load(open(os.path.join(d, "out.json")))

"""Role discovery for private struct fields.

The rule tables name a handful of private fields (the reader's cursor, the size counter, the cached constructor index, ...).
Renaming a private field is behaviour-preserving, so fields are identified by their *role*, discovered from the field's type
where that is unambiguous inside its struct; the facts are then rewritten to the canonical names the rules use.  Where a
role cannot be told apart by type (the four usize fields of ResolvedInputRegion, the two HashMap<String, u8> of AdtMetadata)
the documented name is the anchor and a rename fails closed with a diagnosable `anchor missing`."""
import re

from .facts import short


def _t(pattern):
    rx = re.compile(pattern)
    return lambda s: bool(rx.search(s))


# adt path suffix -> [(canonical field name, predicate on the short type string)]
ROLES = {
    "binary_input::SliceInput": [("data", _t(r"^&\[u8\]$")), ("pos", _t(r"^usize$"))],
    "binary_input::OwnedInput": [("data", _t(r"^Vec<u8>$")), ("pos", _t(r"^usize$"))],
    "binary_output::SizeCalculator": [("size", _t(r"^usize$"))],
    "deserializer::DeserializationContext": [("input", _t(r"^&\[u8\]$")), ("current", _t(r"^ResolvedInputRegion$")),
                                             ("region_stack", _t(r"^Vec<ResolvedInputRegion>$")), ("state", _t(r"State"))],
    "serializer::SerializationContext": [("state", _t(r"^State$")), ("buffer_stack", _t(r"^Vec<Vec<u8>>$")),
                                         ("output", _t(r"^Output$"))],
    "adt::deserializer::AdtDeserializer": [
        ("metadata", _t(r"^&AdtMetadata$")), ("context", _t(r"DeserializationContext")),
        ("last_index_per_chunk", _t(r"^Vec<i8>$")), ("read_constructor_idx", _t(r"^Option<u32>$")),
        ("stored_version", _t(r"^u8$")), ("made_optional_at", _t(r"^BTreeMap<FieldPosition, u8>$")),
        ("removed_fields", _t(r"^HashSet<String")), ("inputs", _t(r"^Vec<InputRegion>$"))],
    "adt::serializer::AdtSerializer": [
        ("metadata", _t(r"^&AdtMetadata$")), ("context", _t(r"SerializationContext")),
        ("buffers", _t(r"^Vec<Option<Vec<u8>>>$")), ("last_index_per_chunk", _t(r"^HashMap<u8, u8")),
        ("field_indices", _t(r"^HashMap<String, FieldPosition"))],
    "adt::AdtMetadata": [("version", _t(r"^u8$")), ("removed_fields", _t(r"^HashSet<String")),
                         ("evolution_steps", _t(r"^Vec<Evolution>$"))],
    "state::State": [("strings_by_id", _t(r"^HashMap<StringId, String")), ("ids_by_string", _t(r"^HashMap<String, StringId")),
                     ("last_string_id", _t(r"^StringId$")), ("refs_by_id", _t(r"^HashMap<RefId, \*const dyn")),
                     ("ids_by_ref", _t(r"^HashMap<\*const dyn")), ("last_ref_id", _t(r"^RefId$"))],
    "adt::FieldPosition": [],
}


def discover(crate):
    """{adt path: {actual field name: canonical name}} for fields whose actual name differs from the canonical one"""
    ren = {}
    for adt in crate.items["adts"]:
        spec = None
        for suffix, roles in ROLES.items():
            if adt["path"].endswith("::" + suffix) or adt["path"] == suffix:
                spec = roles
        if not spec or len(adt["variants"]) != 1:
            continue
        fields = adt["variants"][0]["fields"]
        m = {}
        for canonical, pred in spec:
            cands = [f["name"] for f in fields if pred(short(f["ty"].get("s", "")))]
            if len(cands) == 1 and cands[0] != canonical:
                # do not steal a name another field legitimately has
                if not any(f["name"] == canonical for f in fields):
                    m[cands[0]] = canonical
        if m:
            ren[adt["path"]] = m
    return ren


def canonicalise(crate):
    ren = discover(crate)
    crate.field_renames = ren
    if not ren:
        return crate
    for adt in crate.items["adts"]:
        m = ren.get(adt["path"])
        if m:
            for v in adt["variants"]:
                for f in v["fields"]:
                    f["name"] = m.get(f["name"], f["name"])
    for b in crate.bodies.values():
        loc_ty = [l["ty"] for l in b.locals]
        for blk in b.blocks:
            for st in blk["stmts"]:
                if st["k"] != "assign":
                    continue
                _place(st["place"], loc_ty, ren)
                rv = st["rv"]
                for k in ("x", "l", "r"):
                    if k in rv:
                        _operand(rv[k], loc_ty, ren)
                if "place" in rv:
                    _place(rv["place"], loc_ty, ren)
                for f in rv.get("fields", []):
                    _operand(f, loc_ty, ren)
                if rv.get("rv") == "agg" and rv.get("kind") == "adt" and rv["adt"] in ren:
                    rv["fnames"] = [ren[rv["adt"]].get(n, n) for n in rv["fnames"]]
            t = blk["term"]
            if t["k"] == "call":
                for a in t["args"]:
                    _operand(a, loc_ty, ren)
                _place(t["dest"], loc_ty, ren)
            elif t["k"] == "switch":
                _operand(t["op"], loc_ty, ren)
            elif t["k"] == "assert":
                for o in t["ops"]:
                    _operand(o, loc_ty, ren)
                _operand(t["cond"], loc_ty, ren)
            elif t["k"] == "drop":
                _place(t["place"], loc_ty, ren)
    return crate


def _operand(o, loc_ty, ren):
    p = o.get("copy") or o.get("move")
    if p:
        _place(p, loc_ty, ren)


def _place(p, loc_ty, ren):
    ty = loc_ty[p["local"]]
    for pr in p["proj"]:
        k = pr["p"]
        if k == "deref":
            ty = ty.get("t", {}) if ty.get("k") in ("ref", "ptr") else {}
        elif k == "field":
            if ty.get("k") == "adt" and ty.get("path") in ren:
                pr["name"] = ren[ty["path"]].get(pr["name"], pr["name"])
            ty = pr["ty"]
        elif k == "downcast":
            pass
        elif k in ("index", "constindex"):
            ty = ty.get("t", {}) if ty.get("k") in ("array", "slice") else {}
        else:
            ty = {}

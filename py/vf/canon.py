"""Role discovery for private struct fields.

The rule tables name a handful of private fields (the reader's cursor, the size counter, the cached constructor index, ...).
Renaming a private field is behaviour-preserving, so fields are identified by their *role*, discovered from the field's type
where that is unambiguous inside its struct; the facts are then rewritten to the canonical names the rules use.  Where a
role cannot be told apart by type (the four usize fields of ResolvedInputRegion, the two HashMap<String, u8> of AdtMetadata)
the documented name is the anchor and a rename fails closed with a diagnosable `anchor missing`."""
import re

from .facts import short


def _t(pattern):
    rx = re.compile(pattern)
    return lambda s: bool(rx.search(s))


# adt path suffix -> [(canonical field name, predicate on the short type string)]
ROLES = {
    "binary_input::SliceInput": [("data", _t(r"^&\[u8\]$")), ("pos", _t(r"^usize$"))],
    "binary_input::OwnedInput": [("data", _t(r"^Vec<u8>$")), ("pos", _t(r"^usize$"))],
    "binary_output::SizeCalculator": [("size", _t(r"^usize$"))],
    "deserializer::DeserializationContext": [("input", _t(r"^&\[u8\]$")), ("current", _t(r"^ResolvedInputRegion$")),
                                             ("region_stack", _t(r"^Vec<ResolvedInputRegion>$")), ("state", _t(r"State"))],
    "serializer::SerializationContext": [("state", _t(r"^State$")), ("buffer_stack", _t(r"^Vec<Vec<u8>>$")),
                                         ("output", _t(r"^Output$"))],
    "adt::deserializer::AdtDeserializer": [
        ("metadata", _t(r"^&AdtMetadata$")), ("context", _t(r"DeserializationContext")),
        ("last_index_per_chunk", _t(r"^Vec<i8>$")), ("read_constructor_idx", _t(r"^Option<u32>$")),
        ("stored_version", _t(r"^u8$")), ("made_optional_at", _t(r"^BTreeMap<FieldPosition, u8>$")),
        ("removed_fields", _t(r"^HashSet<String")), ("inputs", _t(r"^Vec<InputRegion>$"))],
    "adt::serializer::AdtSerializer": [
        ("metadata", _t(r"^&AdtMetadata$")), ("context", _t(r"SerializationContext")),
        ("buffers", _t(r"^Vec<Option<Vec<u8>>>$")), ("last_index_per_chunk", _t(r"^HashMap<u8, u8")),
        ("field_indices", _t(r"^HashMap<String, FieldPosition"))],
    "adt::AdtMetadata": [("version", _t(r"^u8$")), ("removed_fields", _t(r"^HashSet<String")),
                         ("evolution_steps", _t(r"^Vec<Evolution>$"))],
    "state::State": [("strings_by_id", _t(r"^HashMap<StringId, String")), ("ids_by_string", _t(r"^HashMap<String, StringId")),
                     ("last_string_id", _t(r"^StringId$")), ("refs_by_id", _t(r"^HashMap<RefId, \*const dyn")),
                     ("ids_by_ref", _t(r"^HashMap<\*const dyn")), ("last_ref_id", _t(r"^RefId$"))],
    "adt::FieldPosition": [],
}


def discover(crate):
    """{adt path: {actual field name: canonical name}} for fields whose actual name differs from the canonical one"""
    ren = {}
    for adt in crate.items["adts"]:
        spec = None
        for suffix, roles in ROLES.items():
            if adt["path"].endswith("::" + suffix) or adt["path"] == suffix:
                spec = roles
        if not spec or len(adt["variants"]) != 1:
            continue
        fields = adt["variants"][0]["fields"]
        m = {}
        for canonical, pred in spec:
            cands = [f["name"] for f in fields if pred(short(f["ty"].get("s", "")))]
            if len(cands) == 1 and cands[0] != canonical:
                # do not steal a name another field legitimately has
                if not any(f["name"] == canonical for f in fields):
                    m[cands[0]] = canonical
        if m:
            ren[adt["path"]] = m
    return ren


# Private (non-pub) functions the rule tables name.  Renaming one is behaviour-preserving, so when the documented name is
# absent the function is re-identified by its role: the one non-public inherent function of the same type (or free function
# of the same file) with exactly this signature (return type first) that no other table entry names.  Ambiguity fails closed
# (the rules then report `anchor missing`).
FN_ROLES = {
    "AdtDeserializer::read_or_get_constructor_idx": ("Result<u32, Error>", "&mut AdtDeserializer"),
    "AdtDeserializer::record_field_index": ("FieldPosition", "&mut AdtDeserializer", "u8"),
    "AdtSerializer<Output>::record_field_index": ("()", "&mut AdtSerializer<Output>", "&str", "u8"),
    "AdtSerializer<Output>::write_evolution_header": ("Result<(), Error>", "&mut AdtSerializer<Output>", "&[Evolution]",
                                                      "&HashSet<String, RandomState, Global>"),
    "DeserializationContext::pop_region": ("InputRegion", "&mut DeserializationContext"),
    "DeserializationContext::pos": ("usize", "&DeserializationContext"),
    "DeserializationContext::push_region": ("()", "&mut DeserializationContext", "InputRegion"),
    "InputRegion::empty": ("InputRegion",),
    "InputRegion::new": ("InputRegion", "usize", "usize"),
    "RefId::next": ("()", "&mut RefId"),
    "StringId::next": ("()", "&mut StringId"),
    "ResolvedInputRegion::unresolve": ("InputRegion", "ResolvedInputRegion"),
    "checked_naive_local": ("Result<NaiveDateTime, Error>", "&DateTime<Z>"),
    "deserialize_iterator": ("DeserializerIterator<T>", "&mut DeserializationContext"),
}
# canonical free functions that may have become an associated function of some type (`Iter::open(ctx)`)
ANY_OWNER = ("deserialize_iterator",)


def _sig(b):
    return tuple(short(l["ty"].get("s", "")) for l in b.locals[:b.arg_count + 1])


def discover_fns(crate):
    """{actual def string: canonical last segment} for renamed private anchor functions"""
    from . import walk
    out = {}
    taken = set()
    for key, sig in FN_ROLES.items():
        if crate.by_key.get(key):
            continue
        owner = key.rsplit("::", 1)[0] if "::" in key else None
        cands = []
        for b in crate.bodies.values():
            if b.kind not in ("Fn", "AssocFn") or b.vis is None or b.vis == "Public" or b.in_trait:
                continue
            if b.impl and b.impl.get("trait"):
                continue
            if b.key in walk.ANCHORS or b.key in FN_ROLES:
                continue
            bo = b.key.rsplit("::", 1)[0] if "::" in b.key else None
            if (bo != owner and key not in ANY_OWNER) or _sig(b) != sig:
                continue
            cands.append(b)
        if len(cands) == 1 and cands[0].defn not in taken:
            taken.add(cands[0].defn)
            out[cands[0].defn] = key.rsplit("::", 1)[-1]
    return out


def _rename_defs(obj, m):
    """rewrite every string that is (or is a closure of) a renamed def path, in place"""
    if isinstance(obj, dict):
        for k, v in obj.items():
            if isinstance(v, str):
                nv = _ren_str(v, m)
                if nv is not v:
                    obj[k] = nv
            elif isinstance(v, (dict, list)):
                _rename_defs(v, m)
    elif isinstance(obj, list):
        for i, v in enumerate(obj):
            if isinstance(v, str):
                nv = _ren_str(v, m)
                if nv is not v:
                    obj[i] = nv
            elif isinstance(v, (dict, list)):
                _rename_defs(v, m)


def _free_callees(obj, freed):
    if isinstance(obj, dict):
        if obj.get("def") in freed and "impl_self" in obj:
            obj["impl_self"] = None
        for v in obj.values():
            if isinstance(v, (dict, list)):
                _free_callees(v, freed)
    elif isinstance(obj, list):
        for v in obj:
            if isinstance(v, (dict, list)):
                _free_callees(v, freed)


def _ren_str(v, m):
    for old, new in m.items():
        if v == old or v.startswith(old + "::{"):
            return new + v[len(old):]
    return v


def canonicalise_fns(crate):
    fr = discover_fns(crate)
    crate.fn_renames = fr
    if not fr:
        return
    from .facts import body_key
    m = {}
    freed = set()
    for old, name in fr.items():
        b = crate.bodies[old]
        if name in ANY_OWNER and b.impl:
            # associated function standing in for a documented free function: re-home it in the module of its type
            ty_path = b.impl["self"].get("path") or ""
            mod = ty_path.rsplit("::", 1)[0] if "::" in ty_path else crate.name
            m[old] = mod + "::" + name
            freed.add(m[old])
        else:
            m[old] = old[:old.rindex("::") + 2] + name
    for b in crate.bodies.values():
        _rename_defs(b.raw, m)
    _rename_defs(crate.items, m)
    if freed:
        for b in crate.bodies.values():
            if b.raw["def"] in freed:
                b.raw["impl"] = None
            _free_callees(b.raw["blocks"], freed)
    _rebuild(crate)


# Types the rule tables name by full path.  Moving a type into another (sub)module of the same crate is behaviour-preserving:
# when the documented path is absent and exactly one type of the crate has the same name, its path is rewritten to the
# documented one in every fact (types, def paths of its methods, aggregates).
CANON_ADTS = (
    "desert_core::state::State", "desert_core::adt::AdtMetadata", "desert_core::deserializer::ResolvedInputRegion",
    "desert_core::deserializer::InputRegion", "desert_core::error::Error", "desert_core::deserializer::DeserializerIterator",
    "desert_core::deserializer::DeserializationContext", "desert_core::serializer::SerializationContext",
    "desert_core::adt::serializer::AdtSerializer", "desert_core::adt::deserializer::AdtDeserializer",
    "desert_core::binary_input::SliceInput", "desert_core::binary_input::OwnedInput",
    "desert_core::binary_output::SizeCalculator", "desert_core::adt::FieldPosition", "desert_core::StringId", "desert_core::RefId",
)


# Non-public enums the rule tables name together with their variants.  A renamed enum is re-identified by the shape of its
# variants, and each variant by its own shape; field names inside a variant by type.
def _fty(f):
    return short(f["ty"].get("s", ""))


def _has(v, rx):
    return any(re.search(rx, _fty(f)) for f in v["fields"])


ENUM_ROLES = {
    "desert_core::deserializer::DeserializerIterator": {
        "is": lambda a: a["kind"] == "Enum" and "Restricted" in str(a.get("vis")) and len(a["variants"]) == 4 and
        sum(1 for v in a["variants"] if _has(v, r"^&mut DeserializationContext")) == 2,
        "variants": [
            ("KnownSize", lambda v: _has(v, r"^&mut DeserializationContext") and _has(v, r"^usize$"),
             [("context", r"^&mut DeserializationContext"), ("remaining", r"^usize$")]),
            ("UnknownSize", lambda v: _has(v, r"^&mut DeserializationContext") and not _has(v, r"^usize$"),
             [("context", r"^&mut DeserializationContext")]),
            ("InputEndedUnexpectedly", lambda v: not v["fields"], []),
            ("InvalidLength", lambda v: len(v["fields"]) == 1 and _has(v, r"^i32$"), []),
        ],
    },
}


# Non-public structs the rule tables name, re-identified by shape when renamed.
def _all_usize(a, n):
    return a["kind"] == "Struct" and "Restricted" in str(a.get("vis")) and len(a["variants"]) == 1 and \
        len(a["variants"][0]["fields"]) == n and all(_fty(f) == "usize" for f in a["variants"][0]["fields"])


STRUCT_ROLES = {
    "desert_core::deserializer::ResolvedInputRegion": lambda a: _all_usize(a, 4),
    "desert_core::deserializer::InputRegion": lambda a: _all_usize(a, 3),
}


def discover_structs(crate):
    have = {a["path"] for a in crate.items["adts"]}
    out = {}
    for want, pred in STRUCT_ROLES.items():
        if want in have or not want.startswith(crate.name + "::"):
            continue
        cands = [a["path"] for a in crate.items["adts"] if a["path"].startswith(crate.name + "::") and pred(a)
                 and a["path"] not in STRUCT_ROLES]
        if len(cands) == 1:
            out[cands[0]] = want
    return out


def discover_enums(crate):
    """-> (type renames {old path: canonical path}, name renames {old variant/field name: canonical name})"""
    have = {a["path"]: a for a in crate.items["adts"]}
    types, names = {}, {}
    all_names = {}
    for a in crate.items["adts"]:
        for v in a["variants"]:
            all_names.setdefault(v["name"], set()).add(a["path"])
            for f in v["fields"]:
                all_names.setdefault(f["name"], set()).add(a["path"])
    for want, spec in ENUM_ROLES.items():
        if not want.startswith(crate.name + "::"):
            continue
        adt = have.get(want)
        if adt is not None and adt.get("kind") != "Enum":
            continue                      # the documented name now belongs to a struct: nothing to re-identify
        if adt is None:
            cands = [a for a in crate.items["adts"] if a["path"].startswith(crate.name + "::") and spec["is"](a)]
            if len(cands) != 1:
                continue
            adt = cands[0]
            types[adt["path"]] = want
        for canonical, pred, fields in spec["variants"]:
            vs = [v for v in adt["variants"] if pred(v)]
            if len(vs) != 1:
                continue
            v = vs[0]
            if v["name"] != canonical and all_names.get(v["name"]) == {adt["path"]}:
                names[v["name"]] = canonical
            for fcanon, rx in fields:
                fs = [f for f in v["fields"] if re.search(rx, _fty(f))]
                if len(fs) == 1 and fs[0]["name"] != fcanon and all_names.get(fs[0]["name"]) == {adt["path"]}:
                    names[fs[0]["name"]] = fcanon
    return types, names


def _rename_exact(obj, m, keys=("variant", "name")):
    """rewrite strings that are exactly a renamed variant / field name (values of `variant` / `name` keys and the
    [discriminant, name] pairs of discriminant reads)"""
    if isinstance(obj, dict):
        for k, v in obj.items():
            if isinstance(v, str):
                if k in keys and v in m:
                    obj[k] = m[v]
            elif isinstance(v, (dict, list)):
                _rename_exact(v, m, keys)
    elif isinstance(obj, list):
        for i, v in enumerate(obj):
            if isinstance(v, str):
                if v in m and len(obj) == 2 and i == 1:
                    obj[i] = m[v]
            elif isinstance(v, (dict, list)):
                _rename_exact(v, m, keys)


def discover_moves(crate):
    have = {a["path"] for a in crate.items["adts"]}
    out = {}
    for want in CANON_ADTS:
        if want in have or not want.startswith(crate.name + "::"):
            continue
        name = want.rsplit("::", 1)[-1]
        cands = [p for p in have if p.rsplit("::", 1)[-1] == name and p.startswith(crate.name + "::")]
        if len(cands) == 1:
            out[cands[0]] = want
    return out


def _replace_all(obj, rx, m):
    if isinstance(obj, dict):
        for k, v in obj.items():
            if isinstance(v, str):
                if "::" in v:
                    nv = rx.sub(lambda mo: m[mo.group(0)], v)
                    if nv != v:
                        obj[k] = nv
            elif isinstance(v, (dict, list)):
                _replace_all(v, rx, m)
    elif isinstance(obj, list):
        for i, v in enumerate(obj):
            if isinstance(v, str):
                if "::" in v:
                    nv = rx.sub(lambda mo: m[mo.group(0)], v)
                    if nv != v:
                        obj[i] = nv
            elif isinstance(v, (dict, list)):
                _replace_all(v, rx, m)


def canonicalise_moves(crate):
    mv = discover_moves(crate)
    etypes, enames = discover_enums(crate)
    mv.update(etypes)
    for k, v in discover_structs(crate).items():
        mv.setdefault(k, v)
    crate.adt_moves = mv
    crate.enum_renames = enames
    if enames:
        for b in crate.bodies.values():
            _rename_exact(b.raw, enames)
        _rename_exact(crate.items, enames)
    if not mv:
        return
    rx = re.compile("(?<![A-Za-z0-9_:])(?:%s)(?![A-Za-z0-9_])" % "|".join(re.escape(k) for k in sorted(mv, key=len, reverse=True)))
    for b in crate.bodies.values():
        _replace_all(b.raw, rx, mv)
    _replace_all(crate.items, rx, mv)
    _rebuild(crate)


def _rebuild(crate):
    from .facts import body_key
    bodies = {}
    for b in crate.bodies.values():
        b.defn = b.raw["def"]
        b.root = b.raw["root"]
        b.impl = b.raw["impl"]
        b.in_trait = b.raw["in_trait"]
        b.key = body_key(b.raw)
        bodies[b.defn] = b
    crate.bodies = bodies
    for b in bodies.values():
        root = b.raw.get("root")
        if root and root != b.defn and root in bodies and b.defn.startswith(root):
            b.key = bodies[root].key + b.defn[len(root):]
    crate.by_key = {}
    for b in bodies.values():
        crate.by_key.setdefault(b.key, []).append(b)


def canonicalise(crate):
    canonicalise_moves(crate)
    canonicalise_fns(crate)
    ren = discover(crate)
    crate.field_renames = ren
    if not ren:
        return crate
    for adt in crate.items["adts"]:
        m = ren.get(adt["path"])
        if m:
            for v in adt["variants"]:
                for f in v["fields"]:
                    f["name"] = m.get(f["name"], f["name"])
    for b in crate.bodies.values():
        loc_ty = [l["ty"] for l in b.locals]
        for blk in b.blocks:
            for st in blk["stmts"]:
                if st["k"] != "assign":
                    continue
                _place(st["place"], loc_ty, ren)
                rv = st["rv"]
                for k in ("x", "l", "r"):
                    if k in rv:
                        _operand(rv[k], loc_ty, ren)
                if "place" in rv:
                    _place(rv["place"], loc_ty, ren)
                for f in rv.get("fields", []):
                    _operand(f, loc_ty, ren)
                if rv.get("rv") == "agg" and rv.get("kind") == "adt" and rv["adt"] in ren:
                    rv["fnames"] = [ren[rv["adt"]].get(n, n) for n in rv["fnames"]]
            t = blk["term"]
            if t["k"] == "call":
                for a in t["args"]:
                    _operand(a, loc_ty, ren)
                _place(t["dest"], loc_ty, ren)
            elif t["k"] == "switch":
                _operand(t["op"], loc_ty, ren)
            elif t["k"] == "assert":
                for o in t["ops"]:
                    _operand(o, loc_ty, ren)
                _operand(t["cond"], loc_ty, ren)
            elif t["k"] == "drop":
                _place(t["place"], loc_ty, ren)
    return crate


def _operand(o, loc_ty, ren):
    p = o.get("copy") or o.get("move")
    if p:
        _place(p, loc_ty, ren)


def _place(p, loc_ty, ren):
    ty = loc_ty[p["local"]]
    for pr in p["proj"]:
        k = pr["p"]
        if k == "deref":
            ty = ty.get("t", {}) if ty.get("k") in ("ref", "ptr") else {}
        elif k == "field":
            if ty.get("k") == "adt" and ty.get("path") in ren:
                pr["name"] = ren[ty["path"]].get(pr["name"], pr["name"])
            ty = pr["ty"]
        elif k == "downcast":
            pass
        elif k in ("index", "constindex"):
            ty = ty.get("t", {}) if ty.get("k") in ("array", "slice") else {}
        else:
            ty = {}

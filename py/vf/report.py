"""Verdict bookkeeping: obligations, violations, known findings, evidence files, VIOLATION lines."""
import hashlib
import json
import os
import time

VERIF = os.environ.get("VERIF_HOME") or os.path.dirname(os.path.dirname(os.path.dirname(os.path.abspath(__file__))))
EVID = os.environ.get("VERIF_EVIDENCE", os.path.join(VERIF, "evidence"))


class RuleCtx:
    def __init__(self, report, rule, text):
        self.report = report
        self.rule = rule
        self.text = text
        self.obligations = 0
        self.discharged = 0
        self.violations = []
        self.samples = []
        self.counts = {}
        self._ord = {}

    def key(self, fn, construct):
        base = "%s / %s / %s" % (self.rule, fn, construct)
        n = self._ord.get(base, 0)
        self._ord[base] = n + 1
        return base if n == 0 else "%s #%d" % (base, n)

    def ok(self, what=None, sample=None):
        self.obligations += 1
        self.discharged += 1
        if sample is not None and len(self.samples) < 4:
            self.samples.append(sample)

    def fail(self, fn, construct, what, where=None, detail=None):
        """Record a violation.  `fn` + `construct` form the (line-free) key; `where` is file:line for humans."""
        self.obligations += 1
        k = self.key(fn, construct)
        self.violations.append({"rule": self.rule, "key": k, "function": fn, "construct": construct, "what": what,
                                "where": where, "detail": detail, "rule_text": self.text})

    def check(self, cond, fn, construct, what, where=None, detail=None, sample=None):
        if cond:
            self.ok(sample=sample)
        else:
            self.fail(fn, construct, what, where, detail)
        return cond

    def count(self, name, n=1):
        self.counts[name] = self.counts.get(name, 0) + n

    def floor(self, name, n, minimum):
        """Fail closed when an instance count falls below what was confirmed by hand on the reference tree."""
        self.counts[name] = n
        if n < minimum:
            self.fail("<floor>", name, "instance count %d below the confirmed floor %d: the rule would pass vacuously"
                      % (n, minimum))
        else:
            self.ok()

    def anchor_missing(self, anchor, err=None):
        self.fail("<anchor>", anchor, "anchor not found in the analysed program (fail closed)%s" %
                  ((": %s" % err) if err else ""))


class Report:
    def __init__(self, prop, tier, level, seed=0):
        self.prop = prop
        self.tier = tier
        self.level = level
        self.seed = seed
        self.rules = []
        self.t0 = time.time()
        self.analysed = {}
        self.assumptions = []
        self.trusted_base = []
        self.explanation = ""
        self.extra = {}

    def rule(self, rule, text):
        r = RuleCtx(self, rule, text)
        self.rules.append(r)
        return r

    # ------------------------------------------------------------------ finish
    def finish(self):
        kf_path = os.path.join(VERIF, "known_findings.json")
        known = {}
        if os.path.exists(kf_path):
            for e in json.load(open(kf_path)).get("findings", []):
                if e.get("status") == "known" and e.get("property") == self.prop:
                    known[e["key"]] = e
        viol_dir = os.path.join(EVID, "violations")
        os.makedirs(viol_dir, exist_ok=True)
        # remove stale violation files of this property
        for f in os.listdir(viol_dir):
            if f.startswith(self.prop + "-"):
                os.unlink(os.path.join(viol_dir, f))
        lines = []
        n_viol = 0
        n_known = 0
        obligations = discharged = 0
        per_rule = []
        samples = []
        for r in self.rules:
            obligations += r.obligations
            discharged += r.discharged
            rv = 0
            for v in r.violations:
                if v["key"] in known:
                    n_known += 1
                    discharged += 0
                    lines.append("KNOWN-FINDING: property=%s %s -- %s" % (self.prop, v["key"], known[v["key"]]["what"]))
                    continue
                rv += 1
                n_viol += 1
                h = hashlib.sha256(v["key"].encode()).hexdigest()[:12]
                path = os.path.join(viol_dir, "%s-%s.json" % (self.prop, h))
                json.dump(dict(v, property=self.prop), open(path, "w"), indent=1)
                lines.append("VIOLATION property=%s replay=%s" % (self.prop, path))
                if n_viol > 15:
                    continue            # the violation file has the details; keep the console readable
                lines.append("  rule %s: %s" % (v["rule"], str(v["what"])[:600]))
                lines.append("  at %s in %s [%s]" % (v.get("where") or "?", v["function"], v["construct"]))
                if v.get("detail"):
                    lines.append("  detail: %s" % (v["detail"] if isinstance(v["detail"], str) else json.dumps(v["detail"])[:600]))
            per_rule.append({"rule": r.rule, "text": r.text, "obligations": r.obligations, "discharged": r.discharged,
                             "violations": rv, "counts": r.counts})
            for s in r.samples[:2]:
                samples.append({"rule": r.rule, "obligation": s})
        # known findings listed but not observed any more are simply not printed (a fixed tree prints nothing)
        wall = time.time() - self.t0
        cov = {
            "explanation": self.explanation,
            "obligations": obligations,
            "discharged": discharged,
            "known_findings_reported": n_known,
            "rules": per_rule,
            "samples": samples or [{"note": "no obligation samples recorded"}],
            "analysed": self.analysed,
            "checker_cmd": "./check %s --tier %s" % (self.prop, self.tier),
            "trusted_base": self.trusted_base,
            "evaluations": obligations,
            "distinct_nontrivial": obligations,
            "rule": "one evaluation = one rule instance (call site / path / function / declaration / obligation) "
                    "enumerated from the analysed program; all are distinct program constructs",
        }
        cov.update(self.extra)
        ev = {"property_id": self.prop, "tier": self.tier, "seed": self.seed, "level": self.level, "coverage": cov,
              "assumptions": self.assumptions, "wall_s": round(wall, 2), "violations": n_viol}
        os.makedirs(EVID, exist_ok=True)
        json.dump(ev, open(os.path.join(EVID, self.prop + ".json"), "w"), indent=1)
        for ln in lines:
            print(ln)
        print("%s %s: %d obligations, %d discharged, %d violations, %d known findings, %.1fs" %
              (self.prop, self.tier, obligations, discharged, n_viol, n_known, wall))
        for pr in per_rule:
            print("   %-6s %4d/%-4d %s" % (pr["rule"], pr["discharged"], pr["obligations"],
                                           ("  " + json.dumps(pr["counts"])) if pr["counts"] else ""))
        return 1 if n_viol else 0

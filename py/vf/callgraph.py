"""Resolved call graph of one crate and reachability from the decode / encode entry points."""
from . import mir


class CallGraph:
    def __init__(self, crate):
        self.crate = crate
        self.edges = {}        # defn -> set(defn) (local bodies)
        self.ext = {}          # defn -> list of (bb, info) external / unresolved callees
        self.generic = {}      # defn -> list of (bb, info) calls of trait methods on type parameters
        # user-written Drop impls: a `drop` terminator of a value that is (or contains) such a type runs that code
        drop_impls = {}
        for b in crate.bodies.values():
            if b.impl and b.impl.get("trait") == "core::ops::drop::Drop" and b.kind in ("Fn", "AssocFn"):
                p_ = b.impl["self"].get("path")
                if p_:
                    drop_impls[p_] = b.defn
        fields_of = {a["path"]: [f["ty"] for v in a["variants"] for f in v["fields"]] for a in crate.items["adts"]} if drop_impls else {}

        def drops_of(ty, seen):
            out = set()
            stack = [ty]
            while stack:
                t_ = stack.pop()
                if not isinstance(t_, dict):
                    continue
                if t_.get("k") == "adt":
                    p_ = t_.get("path")
                    if p_ in drop_impls:
                        out.add(drop_impls[p_])
                    if p_ in fields_of and p_ not in seen:
                        seen.add(p_)
                        stack.extend(fields_of[p_])
                    stack.extend(t_.get("args", []))
                elif t_.get("k") in ("array", "slice"):
                    stack.append(t_.get("t"))
                elif t_.get("k") == "tuple":
                    stack.extend(t_.get("ts", []))
            return out
        for b in crate.bodies.values():
            es = set()
            ext = []
            gen = []
            if drop_impls:
                for blk in b.blocks:
                    t_ = blk["term"]
                    if t_["k"] == "drop":
                        es |= drops_of(t_["place"].get("ty"), set())
            for bb, t, info in mir.calls(b):
                d = info["def"]
                if d in crate.bodies:
                    es.add(d)
                elif info["local"] and info["trait"] and not info["resolved"]:
                    # provided trait method (resolves to itself) is a body; otherwise a call on a type parameter
                    gen.append((bb, info))
                else:
                    ext.append((bb, info))
            # function items and closures mentioned as values
            for blk_i in mir.reachable(b):
                blk = b.blocks[blk_i]
                if blk.get("cleanup"):
                    continue
                for st in blk["stmts"]:
                    if st["k"] != "assign":
                        continue
                    rv = st["rv"]
                    ops = []
                    if rv["rv"] in ("use", "cast", "un", "repeat"):
                        ops = [rv["x"]]
                    elif rv["rv"] == "bin":
                        ops = [rv["l"], rv["r"]]
                    elif rv["rv"] == "agg":
                        ops = rv["fields"]
                        if rv["kind"] == "closure" and rv["def"] in crate.bodies:
                            es.add(rv["def"])
                    for o in ops:
                        self._fnconst(o, es, crate)
                t = blk["term"]
                if t["k"] == "call":
                    for o in t["args"]:
                        self._fnconst(o, es, crate)
            self.edges[b.defn] = es
            self.ext[b.defn] = ext
            self.generic[b.defn] = gen

    @staticmethod
    def _fnconst(o, es, crate):
        c = o.get("const")
        if c and c.get("fn"):
            d = mir.callee_def(c["fn"])
            if d in crate.bodies:
                es.add(d)
            b = c["fn"]["def"]
            if b in crate.bodies:
                es.add(b)

    def reach(self, roots):
        """defn -> shortest call path (list of keys) from some root"""
        paths = {}
        frontier = []
        for r in roots:
            if r.defn not in paths:
                paths[r.defn] = [r.key]
                frontier.append(r.defn)
        while frontier:
            nxt = []
            for d in frontier:
                for e in sorted(self.edges.get(d, ())):
                    if e not in paths:
                        paths[e] = paths[d] + [self.crate.bodies[e].key]
                        nxt.append(e)
            frontier = nxt
        return paths


def _trait_is(body, name):
    imp = body.impl
    return bool(imp and imp.get("trait") and imp["trait"].endswith("::" + name))


def decode_roots(crate):
    out = []
    for b in crate.bodies.values():
        k = b.key
        if _trait_is(b, "BinaryDeserializer") or _trait_is(b, "BinaryInput"):
            out.append(b)
        elif b.in_trait and b.in_trait.endswith("::BinaryInput"):
            out.append(b)
        elif k.startswith(("DeserializationContext::", "AdtDeserializer::")) and "{closure" not in k:
            out.append(b)
        elif k in ("deserialize", "deserialize_iterator") or k.startswith("<DeserializerIterator<T> as Iterator>"):
            out.append(b)
        elif k == "AdtMetadata::new":
            out.append(b)        # runs inside the first decode / encode call of a derived type (lazy metadata static)
    return out


def encode_roots(crate):
    out = []
    for b in crate.bodies.values():
        k = b.key
        if _trait_is(b, "BinarySerializer") or _trait_is(b, "BinaryOutput"):
            out.append(b)
        elif b.in_trait and b.in_trait.endswith("::BinaryOutput"):
            out.append(b)
        elif k.startswith(("SerializationContext<Output>::", "AdtSerializer<Output>::")) and "{closure" not in k:
            out.append(b)
        elif k in ("serialize", "serialize_to_bytes", "serialize_to_byte_vec", "serialize_iterator"):
            out.append(b)
        elif k == "AdtMetadata::new":
            out.append(b)        # runs inside the first decode / encode call of a derived type (lazy metadata static)
    return out

"""Loading of mirdump fact files into a Program (resolved program view used by every rule pack)."""
import glob
import hashlib
import json
import os
import pickle
import re

_SEG = re.compile(r"(?:[A-Za-z_][A-Za-z0-9_]*::)+(?=[A-Za-z_<{\[(&*])")
_LT = re.compile(r"<('[a-z_]+|'\{erased\})(, ('[a-z_]+|'\{erased\}))*>")
_LT2 = re.compile(r"('[a-z_]+|'\{erased\}) ")
_LT3 = re.compile(r"('[a-z_]+|'\{erased\}), ")
_PIDX = re.compile(r"/#\d+")


def short(s):
    """Human-stable short form of a path/type string: module prefixes, lifetimes and param indices dropped."""
    if s is None:
        return None
    s = _PIDX.sub("", s)
    s = _LT.sub("", s)
    s = _LT3.sub("", s)
    s = _LT2.sub("", s)
    s = s.replace("::<", "<").replace(", alloc::alloc::Global", "").replace(", std::hash::random::RandomState", "")
    s = s.replace(", core::hash::BuildHasherDefault<std::hash::random::DefaultHasher>", "")
    prev = None
    while prev != s:
        prev = s
        s = _SEG.sub("", s)
    return s


_IMPLFORM = re.compile(r"^(?:.*::)?<impl (.+) for (.+?)>::([A-Za-z0-9_]+)((?:::\{closure#\d+\})*)$")


def fn_key(defstr):
    """Short key of a function def string.  `m::<impl Tr for Ty>::f` is normalised to `<Ty as Tr>::f`."""
    m = _IMPLFORM.match(defstr)
    if m:
        return "<%s as %s>::%s%s" % (short(m.group(2)), short(m.group(1)), m.group(3), m.group(4))
    return short(defstr)


_CLOS = re.compile(r"((?:::\{closure#\d+\})+)$")


def last_seg(defstr):
    """last path segment of a def string, with any closure suffix kept"""
    m = _CLOS.search(defstr)
    suffix = m.group(1) if m else ""
    base = defstr[:len(defstr) - len(suffix)] if suffix else defstr
    # strip trailing generic args of the last segment: foo::<T>  (def_path_str does not print them for fns)
    depth = 0
    i = len(base) - 1
    while i >= 0:
        c = base[i]
        if c == ">":
            depth += 1
        elif c == "<":
            depth -= 1
        elif c == ":" and depth == 0:
            break
        i -= 1
    return base[i + 1:] + suffix


def make_key(defstr, impl_self, trait, in_trait):
    """Key of a function from its def string plus impl/trait info (see Body.key)."""
    if defstr.startswith("<") or _IMPLFORM.match(defstr):
        return fn_key(defstr)           # already `<Ty as Tr<..>>::f` or `m::<impl Tr for Ty>::f`
    name = last_seg(defstr)
    if impl_self is not None and not trait:
        return "%s::%s" % (short(impl_self), name)
    if impl_self is not None and trait:
        return "<%s as %s>::%s" % (short(impl_self), short(trait), name)
    if in_trait:
        return "%s::%s" % (short(in_trait), name)
    return fn_key(defstr)


def body_key(raw):
    imp = raw.get("impl")
    if imp:
        return make_key(raw["def"], imp["self"]["s"], imp.get("trait"), None)
    if raw.get("in_trait"):
        return make_key(raw["def"], None, None, raw["in_trait"])
    return fn_key(raw["def"])


class Body:
    __slots__ = ("raw", "crate", "test", "defn", "key", "kind", "blocks", "locals", "arg_count", "impl", "in_trait",
                 "root", "vis", "unsafe_fn", "unsafe_blocks", "span", "preds", "_succ", "_pred", "_dom", "_reach")

    def __init__(self, raw, crate, test):
        self.raw = raw
        self.crate = crate
        self.test = test
        self.defn = raw["def"]
        self.key = body_key(raw)
        self.kind = raw["kind"]
        self.blocks = raw["blocks"]
        self.locals = raw["locals"]
        self.arg_count = raw["arg_count"]
        self.impl = raw["impl"]
        self.in_trait = raw["in_trait"]
        self.root = raw["root"]
        self.vis = raw["vis"]
        self.unsafe_fn = raw["unsafe_fn"]
        self.unsafe_blocks = raw["unsafe_blocks"]
        self.span = raw["span"]
        self.preds = raw["preds"]
        self._succ = self._pred = self._dom = self._reach = None

    def __repr__(self):
        return "<Body %s>" % self.key

    @property
    def file(self):
        return self.span["f"]

    @property
    def from_macro(self):
        return self.span.get("exp")


class Crate:
    def __init__(self, raw, path):
        self.name = raw["crate"]
        self.test = raw["test"]
        self.cfg = raw["cfg"]
        self.crate_types = raw["crate_types"]
        self.items = raw["items"]
        self.path = path
        self.bodies = {}
        for b in raw["bodies"]:
            body = Body(b, self.name, self.test)
            self.bodies[body.defn] = body
        # closures and nested items: key of the enclosing function + suffix
        for body in self.bodies.values():
            root = body.raw.get("root")
            if root and root != body.defn and root in self.bodies and body.defn.startswith(root):
                body.key = self.bodies[root].key + body.defn[len(root):]
        self.by_key = {}
        for body in self.bodies.values():
            self.by_key.setdefault(body.key, []).append(body)
        from . import canon
        canon.canonicalise(self)

    def body(self, key):
        bs = self.by_key.get(key, [])
        if len(bs) != 1:
            raise KeyError("anchor %r: %d bodies in crate %s" % (key, len(bs), self.name))
        return bs[0]

    def find(self, key):
        bs = self.by_key.get(key, [])
        return bs[0] if len(bs) == 1 else None

    def label(self):
        return self.name + ("[test]" if self.test else "")


def _load_file(f):
    pk = f + ".pickle8"
    if os.path.exists(pk) and os.path.getmtime(pk) >= os.path.getmtime(f):
        try:
            return pickle.load(open(pk, "rb"))
        except Exception:
            pass
    c = Crate(json.loads(open(f, "rb").read()), f)
    try:
        pickle.dump(c, open(pk + ".tmp%d" % os.getpid(), "wb"), protocol=pickle.HIGHEST_PROTOCOL)
        os.replace(pk + ".tmp%d" % os.getpid(), pk)
    except Exception:
        pass
    return c


_FNAME = re.compile(r"^(.*?)(-test)?-(\d+)\.json$")


class Program:
    """All crates of one extraction (one cfg set); crates are loaded lazily.
    cargo compiles a crate several times under different feature unifications: the largest file wins."""

    def __init__(self, factdir):
        self.factdir = factdir
        self.files = {}
        for f in sorted(glob.glob(os.path.join(factdir, "*.json"))):
            m = _FNAME.match(os.path.basename(f))
            if not m:
                continue
            k = (m.group(1), bool(m.group(2)))
            if k not in self.files or os.path.getsize(f) > os.path.getsize(self.files[k]):
                self.files[k] = f
        self._loaded = {}

    @property
    def crates(self):
        return list(self._loaded.values())

    def names(self):
        return sorted(self.files)

    def crate(self, name, test=False):
        k = (name, test)
        if k not in self._loaded:
            if k not in self.files:
                raise KeyError("crate %s (test=%s) not in facts %s" % (name, test, self.factdir))
            self._loaded[k] = _load_file(self.files[k])
        return self._loaded[k]

    def has_crate(self, name, test=False):
        return (name, test) in self.files

"""Pack G - wire grammar of the built-in codecs: pair table (G1), writer grammar == FORMAT table incl. tag constants,
prefix flavours and slot labels (G3/G6), writer/reader unification (G2), sequence family (G4/G8/G9), tags exhaustive (G7),
compressed frame (C16)."""
import re

from .. import mir, guards, walk
from ..mir import show, strip_refs
from .t_tables import sig_calls, outcome_of, called_exact

W_PREFIX = "BinaryOutput::write_"
R_PREFIX = "BinaryInput::read_"

# ------------------------------------------------------------------------------------------------ labels (G6)
ACCESSOR_LABEL = {
    "Duration::as_secs": "secs", "Duration::subsec_nanos": "nanos",
    "DateTime<Tz>::timestamp": "secs", "DateTime<Tz>::timestamp_subsec_nanos": "nanos",
    "<NaiveDate as Datelike>::year": "year", "<NaiveDate as Datelike>::month": "month", "<NaiveDate as Datelike>::day": "day",
    "<NaiveTime as Timelike>::hour": "hour", "<NaiveTime as Timelike>::minute": "minute",
    "<NaiveTime as Timelike>::second": "second", "<NaiveTime as Timelike>::nanosecond": "nanosecond",
    "FixedOffset::local_minus_utc": "offset_seconds_east", "Weekday::number_from_monday": "weekday_from_monday_1",
    "Month::number_from_month": "month_1", "Tz::name": "tz_name", "Uuid::into_bytes": "uuid_bytes", "Uuid::as_bytes": "uuid_bytes", "Uuid::as_u128": "uuid_u128",
    "<u8 as From<bool>>::from": "bool01",
    "<T as ToString>::to_string": "decimal_text", "<BigInt as ToBytes>::to_be_bytes": "signed_be_bytes",
    "BigInt::to_signed_bytes_be": "signed_be_bytes",
    "DateTime<Tz>::timezone#FixedOffset": "offset", "DateTime<Tz>::timezone#Tz": "tz<tz_id<offset",
    "NaiveDateTime::date": "date", "NaiveDateTime::time": "time", "checked_naive_local": "local_datetime",
    "DateTime<Tz>::naive_utc": "utc_datetime", "DateTime<Tz>::offset": "offset", "char::encode_utf16": "utf16_unit",
    "<TzOffset as OffsetName>::tz_id": "tz_id", "<Tz as FromStr>::from_str": "tz",
}
CTOR_LABEL = {
    ("Duration::from_secs", 0): "secs", ("Duration::new", 0): "secs", ("Duration::new", 1): "nanos",
    ("Duration::from_nanos", 0): "nanos",
    ("DateTime<Utc>::from_timestamp", 0): "secs", ("DateTime<Utc>::from_timestamp", 1): "nanos",
    ("NaiveDate::from_ymd_opt", 0): "year", ("NaiveDate::from_ymd_opt", 1): "month", ("NaiveDate::from_ymd_opt", 2): "day",
    ("NaiveTime::from_hms_nano_opt", 0): "hour", ("NaiveTime::from_hms_nano_opt", 1): "minute",
    ("NaiveTime::from_hms_nano_opt", 2): "second", ("NaiveTime::from_hms_nano_opt", 3): "nanosecond",
    ("FixedOffset::east_opt", 0): "offset_seconds_east", ("NaiveDateTime::new", 0): "date", ("NaiveDateTime::new", 1): "time",
    ("TimeZone::from_local_datetime", 1): "local_datetime", ("TimeZone::from_local_datetime", 0): "offset",
    ("TimeZone::from_utc_datetime", 1): "utc_datetime", ("TimeZone::from_utc_datetime", 0): "tz",
    ("i8::checked_sub", 0): "weekday_from_monday_1", ("FromPrimitive::from_i8", 0): "month_1",
    ("<Tz as FromStr>::from_str", 0): "tz_name", ("Uuid::from_bytes", 0): "uuid_bytes", ("Uuid::from_u128", 0): "uuid_u128", ("str::parse", 0): "decimal_text",
    ("BigInt::from_signed_bytes_be", 0): "signed_be_bytes", ("char::decode_utf16", 0): "utf16_unit",
    ("char::from_u32", 0): "utf16_unit",      # for a 16-bit argument: None exactly on the surrogate range, like decode_utf16
    # synonyms inside chrono (read off its source: each is defined in terms of the entry it stands for)
    ("NaiveDate::and_time", 0): "date", ("NaiveDate::and_time", 1): "time",                       # == NaiveDateTime::new
    ("TimeZone::timestamp_opt", 1): "secs", ("TimeZone::timestamp_opt", 2): "nanos",              # Utc: == from_timestamp
    ("NaiveDateTime::and_local_timezone", 0): "local_datetime", ("NaiveDateTime::and_local_timezone", 1): "offset",
    ("NaiveDateTime::and_utc", 0): "utc_datetime", ("DateTime<Tz>::with_timezone", 1): "tz",      # == tz.from_utc_datetime
    ("<Month as TryFrom<u8>>::try_from", 0): "month_1",
}


def _label(term):
    """labels of the accessor calls a value passes through, outermost first, joined with '<'"""
    labs = []
    for x in mir.walk_expr(term):
        if x[0] != "call":
            continue
        key = _accessor_key(x)
        if key in ACCESSOR_LABEL and ACCESSOR_LABEL[key] not in labs:
            labs.append(ACCESSOR_LABEL[key])
            # the accessor must be applied to the value itself (or to another labelled accessor of it): a transformation
            # slipped in between - self.normalized().to_string() - changes which text / number is written
            via = _receiver_detour(x)
            if via:
                labs.append("via:" + via)
    return "<".join(labs) if labs else None


def _peel_casts(t):
    t = strip_refs(t)
    while isinstance(t, tuple) and t[0] == "cast" and t[1] == "IntToInt":
        t = strip_refs(t[4])
    return t


def _derived_label(term):
    """components obtained by arithmetic on another accessor, for the few cases chrono documents:
    num_days_from_monday() + 1 == number_from_monday();  s = num_seconds_from_midnight(): s / 3600 == hour(),
    s / 60 % 60 == minute(), s % 60 == second()"""
    t = _peel_casts(term)
    if not (isinstance(t, tuple) and t[0] == "bin"):
        return None
    op, l, r = t[1].replace("WithOverflow", ""), _peel_casts(t[2]), t[3]
    k = _const(r)

    def is_call(x, key):
        return isinstance(x, tuple) and x[0] == "call" and x[1] == key and x[3] and strip_refs(x[3][0])[0] == "arg"
    if op == "Add" and k == 1 and is_call(l, "Weekday::num_days_from_monday"):
        return "weekday_from_monday_1"
    secs = "<NaiveTime as Timelike>::num_seconds_from_midnight"
    if op == "Div" and k == 3600 and is_call(l, secs):
        return "hour"
    if op == "Rem" and k == 60 and is_call(l, secs):
        return "second"
    if op == "Rem" and k == 60 and isinstance(l, tuple) and l[0] == "bin" and l[1].replace("WithOverflow", "") == "Div" and \
            _const(l[3]) == 60 and is_call(_peel_casts(l[2]), secs):
        return "minute"
    return None


def _accessor_key(x):
    key = x[1]
    if key == "DateTime<Tz>::timezone" and len(x) > 5 and x[5]:
        key = "%s#%s" % (key, mir.short(x[5][0].get("s", "?")))
    if key == "str::parse" and len(x) > 5 and x[5]:
        # s.parse::<F>() is <F as FromStr>::from_str(s)
        key = "<%s as FromStr>::from_str" % mir.short(x[5][0].get("s", "?"))
    return key


IDENTITY_CALLS = ("clone", "as_ref", "borrow", "deref", "to_owned", "as_mut", "by_ref", "into", "from", "as_str", "as_slice",
                  "unwrap_or_default")


def _receiver_detour(x):
    """name of the first unlabelled, non-identity call on the way from the labelled accessor `x` back to the value"""
    if not x[3]:
        return None
    t = strip_refs(x[3][0])
    for _ in range(12):
        if not isinstance(t, tuple):
            return None
        if t[0] in ("arg", "phi", "const", "static"):
            return None
        if t[0] in ("field", "variant", "deref", "ref", "index", "ok", "try", "okval"):
            t = strip_refs(t[1])
            continue
        if t[0] == "cast":
            t = strip_refs(t[4])
            continue
        if t[0] == "call":
            k = _accessor_key(t)
            if k in ACCESSOR_LABEL or k.split("::")[-1] in IDENTITY_CALLS or k.endswith("Try>::branch") or \
                    "BinaryDeserializer" in k or k.startswith("BinaryInput::"):
                if not t[3]:
                    return None
                t = strip_refs(t[3][0])
                continue
            return k
        return None
    return None


# ------------------------------------------------------------------------------------------------ event extraction
def _sub_type(c):
    """type of a nested codec call from its key / type args"""
    k = c[2]
    targs = c[6]
    if targs and targs[0].get("s"):
        return mir.short(targs[0]["s"]).replace("&", "")
    m = re.match(r"^<(.+) as Binary(?:Serializer|Deserializer)>::(?:serialize|deserialize)$", k)
    if m:
        return m.group(1)
    return "?"


_BE_WIDTH = {"u8": 1, "i8": 1, "u16": 2, "i16": 2, "u32": 4, "i32": 4, "u64": 8, "i64": 8, "u128": 16, "i128": 16, "f32": 4, "f64": 8}


def _be_pieces(payload):
    """[(int type, value term)] when `payload` is the big-endian bytes of one or more fixed-width values, complete and in
    order: `&v.to_be_bytes()` or an array literal assembled from all the bytes of each `x.to_be_bytes()`; else None"""
    t = strip_refs(payload)
    while isinstance(t, tuple) and t[0] == "cast" and t[1] == "Unsize":
        t = strip_refs(t[4])

    def be(x):
        x = strip_refs(x)
        if isinstance(x, tuple) and x[0] == "call" and x[1].endswith("::to_be_bytes") and x[1].split("::")[0] in _BE_WIDTH and len(x[3]) == 1:
            return x[1].split("::")[0], x[3][0]
        return None
    if be(t):
        return [be(t)]
    if not (isinstance(t, tuple) and t[0] == "agg" and t[1] == "array" and t[4]):
        return None
    out, i, el = [], 0, t[4]
    while i < len(el):
        e = strip_refs(el[i])
        if not (isinstance(e, tuple) and e[0] == "index" and be(e[1])):
            return None
        ty, v = be(e[1])
        n = _BE_WIDTH[ty]
        for k in range(n):
            if i + k >= len(el):
                return None
            ek = strip_refs(el[i + k])
            if not (isinstance(ek, tuple) and ek[0] == "index" and repr(ek[1]) == repr(e[1]) and guards.rng(ek[2]) == (k, k)):
                return None
        out.append((ty, v))
        i += n
    return out


def writer_paths(body, crate):
    """successful writer paths as lists of events:
       ('w', kind, term) | ('sub', type, term) | ('seqw', term) ; plus .loop flag"""
    out = []
    for p in walk.walk(body, crate):
        if p.outcome[0] not in ("return", "loopback"):
            continue
        if p.outcome[0] == "return" and not p.returns_ok():
            kind, what = outcome_of(p)
            if kind in ("errprop", "err"):
                continue
        if not _all_continue(p):
            continue
        ev = []
        for c in p.events:
            if c[0] == "loop":
                ev.append(("loop", c[2]))
                continue
            if c[0] != "call" or c[2].endswith(("Try>::branch", "from_residual")):
                continue
            if c[3] == W_PREFIX + "bytes" and len(c[5]) > 1 and _be_pieces(c[5][1]):
                # write_bytes(&[a.to_be_bytes()[0], .., b.to_be_bytes()[0], ..]) is write_<A>(a); write_<B>(b) (P1: the fixed-width
                # writers are write_bytes(&v.to_be_bytes()))
                for ty_, v_ in _be_pieces(c[5][1]):
                    ev.append(("w", ty_, v_))
            elif c[3].startswith(W_PREFIX):
                ev.append(("w", c[3][len(W_PREFIX):], c[5][1] if len(c[5]) > 1 else None))
            elif c[3] == "BinarySerializer::serialize":
                if _sub_type(c) != "()":             # the unit codec writes nothing: `().serialize(ctx)` is no item
                    ev.append(("sub", _sub_type(c), c[5][0]))
            elif c[2] == "serialize_iterator":
                ev.append(("seqw", c[5][0], c[6]))
            elif c[3] == "Iterator::next" and p.outcome[0] == "loopback":
                ev.append(("loop", "begin"))
        if p.outcome[0] == "loopback":
            ev.append(("loop", "end"))
        out.append((ev, p))
    return out


def split_loop(ev):
    """(prefix, body, suffix) of a writer event list; body is None when the path contains no loop"""
    if ("loop", "begin") not in ev:
        return [e for e in ev if e[0] != "loop"], None, []
    i = ev.index(("loop", "begin"))
    j = len(ev) - 1 - ev[::-1].index(("loop", "end")) if ("loop", "end") in ev else len(ev)
    return ev[:i], [e for e in ev[i + 1:j] if e[0] != "loop"], [e for e in ev[j + 1:] if e[0] != "loop"]


def reader_paths(body, crate, inline=()):
    out = []
    for p in walk.walk(body, crate, inline):
        if p.outcome[0] not in ("return", "loopback") or not _all_continue(p):
            continue
        kind, what = outcome_of(p)
        if p.outcome[0] == "return" and kind != "ok":
            continue
        ev = []
        for c in sig_calls(p):
            if c[3].startswith(R_PREFIX) and c[3] != "BinaryInput::read_bytes":
                ev.append(("r", c[3][len(R_PREFIX):], c[1]))
            elif c[3] == "BinaryInput::read_bytes":
                ev.append(("rb", c[5][1], c[1]))
            elif c[3] == "BinaryInput::skip":
                ev.append(("skip", c[5][1], c[1]))
            elif c[3] == "BinaryDeserializer::deserialize":
                if _sub_type(c) != "()":
                    ev.append(("sub", _sub_type(c), c[1]))
            elif c[2] == "deserialize_iterator":
                ev.append(("seqr", c[1], c[6]))
            elif c[2] in ("AdtDeserializer::read_field", "AdtDeserializer::read_optional_field"):
                ev.append(("field", c[2].split("::")[-1], c[1], c[6]))
            elif c[2] in ("AdtDeserializer::new_v0", "AdtDeserializer::new"):
                ev.append(("adt", c[2].split("::")[-1], c[1]))
        out.append((ev, p))
    return out


def _all_continue(p):
    for a in p.atoms():
        if a[1][0] == "discr" and strip_refs(a[1][1])[0] == "try" and walk.atom_variant(a) != "Continue":
            return False
    return True


def _const(term):
    r = guards.rng(term) if term is not None else None
    if r and r[0] == r[1] and strip_refs(term)[0] in ("const", "cast"):
        return r[0]
    return None


# ------------------------------------------------------------------------------------------------ G1
WRITER_ONLY = {"&T", "[T]", "str"}


def _generic_instance(s, impls):
    """`Rc<str>` is an instance of the impl for `Rc<T>`"""
    import re
    for g in impls:
        if g == s or "<" not in g:
            continue
        parts = re.split(r"\b[A-Z][0-9]?\b", g)
        if len(parts) > 1 and re.fullmatch("[^,<>]+".join(re.escape(x) for x in parts), s):
            return True
    return False


def pair_table(an, rep, features="default"):
    R = rep.rule("G1", "every built-in type has exactly one BinarySerializer and one BinaryDeserializer impl with the same "
                       "Self type; writer-only impls are exactly &T, [T], str")
    core = an.core(features)
    ser, de = {}, {}
    for imp in core.items["impls"]:
        if not imp["trait"]:
            continue
        s = mir.short(imp["self"]["s"])
        if imp["trait"].endswith("::BinarySerializer"):
            ser.setdefault(s, []).append(imp)
        elif imp["trait"].endswith("::BinaryDeserializer"):
            de.setdefault(s, []).append(imp)
    pairs = 0
    for s in sorted(set(ser) | set(de)):
        if s in WRITER_ONLY:
            R.check(s in ser and s not in de, s, "writer-only", "expected a writer-only impl")
            continue
        okk = len(ser.get(s, [])) == 1 and len(de.get(s, [])) == 1
        if not okk and not ser.get(s) and len(de.get(s, [])) == 1 and _generic_instance(s, ser):
            # a reader for one instance of a generic writer (`Rc<T: ?Sized>` writes every Rc; `Rc<str>` needs a reader of its
            # own because `str` is unsized): the writer half exists
            R.count("reader-only instances of a generic writer")
            continue
        R.check(okk, s, "pair", "type has %d serializer and %d deserializer impls" % (len(ser.get(s, [])), len(de.get(s, []))),
                None, sample={"type": s, "pair": True})
        pairs += okk
    floor = {"default": 56, "none": 42, "bigdecimal": 44, "chrono_bigdecimal": 55, "uuid": 43}.get(features, 30)
    R.floor("codec pairs (%s features)" % features, pairs, floor)
    return R


# ------------------------------------------------------------------------------------------------ FORMAT table (G3/G6)
def P(kind, what):        # primitive carrying data with a label (or "self")
    return ("w", kind, ("label", what))


def C(kind, c):           # primitive carrying a constant tag
    return ("w", kind, ("const", c))


def L(kind, of):          # length prefix of the following payload
    return ("w", kind, ("len", of))


def S(ty, label=None):
    return ("sub", ty, label)


INTS = ("u8", "i8", "u16", "i16", "u32", "i32", "u64", "i64", "u128", "i128", "f32", "f64")
FORMAT = {t: [[P(t, "self")]] for t in INTS}
FORMAT.update({
    "bool": [[C("u8", 1)], [C("u8", 0)]],
    "()": [[]],
    "PhantomData<T>": [[]],
    "char": [[P("u16", "utf16_unit")]],
    "String": [[L("var_i32", "utf8"), ("w", "bytes", ("payload", "utf8"))]],
    "str": [[L("var_i32", "utf8"), ("w", "bytes", ("payload", "utf8"))]],
    "Duration": [[P("u64", "secs"), P("u32", "nanos")]],
    "Option<T>": [[C("u8", 1), S("T")], [C("u8", 0)]],
    "Result<R, E>": [[C("u8", 1), S("R")], [C("u8", 0), S("E")]],
    "Bytes": [[L("var_u32", "self"), ("w", "bytes", ("payload", "self"))]],
    "Box<T>": [[S("T")]], "Rc<T>": [[S("T")]], "Arc<T>": [[S("T")]], "&T": [[S("T")]],
    "Uuid": [[("w", "bytes", ("label", "uuid_bytes"))]],
    "BigDecimal": [[S("String", "decimal_text")]],
    "BigInt": [[S("Vec<u8>", "signed_be_bytes")]],
    "Weekday": [[S("i8", "weekday_from_monday_1")]],
    "Month": [[S("i8", "month_1")]],
    "FixedOffset": [[C("u8", 0), P("var_i32", "offset_seconds_east")]],
    "Tz": [[C("u8", 1), S("String", "tz_name")]],
    "DateTime<Utc>": [[P("i64", "secs"), P("u32", "nanos")]],
    "NaiveDate": [[P("var_u32", "year"), P("u8", "month"), P("u8", "day")]],
    "NaiveTime": [[P("u8", "hour"), P("u8", "minute"), P("u8", "second"), P("var_u32", "nanosecond")]],
    "NaiveDateTime": [[S("NaiveDate", "date"), S("NaiveTime", "time")]],
    "DateTime<Local>": [[S("NaiveDate", "date<local_datetime"), S("NaiveTime", "time<local_datetime")]],
    "DateTime<FixedOffset>": [[S("NaiveDateTime", "local_datetime"), S("FixedOffset", "offset")]],
    "DateTime<Tz>": [[S("NaiveDateTime", "utc_datetime"), S("Tz", "tz<tz_id<offset")]],
})
for n in range(1, 9):
    ts = ["T%d" % i for i in range(1, n + 1)]
    FORMAT["(%s)" % (", ".join(ts) + ("," if n == 1 else ""))] = [[C("u8", 0)] + [S(t) for t in ts]]
SEQ_TYPES = {"Vec<T>": "T", "[T]": "T", "[T; L]": "T", "HashSet<T>": "T", "BTreeSet<T>": "T", "LinkedList<T>": "T",
             "HashMap<K, V>": "(K, V)", "BTreeMap<K, V>": "(K, V)"}
BYTE_SPECIALISED = {"Vec<T>", "[T]", "[T; L]"}
SPECIAL = {"DeduplicatedString", "FieldPosition", "SerializedEvolutionStep"}     # rules T7, T8, T9


VARIANT_TESTS = {"Option<T>::is_some": "Some", "Option<T>::is_none": "None", "Result<T, E>::is_ok": "Ok",
                 "Result<T, E>::is_err": "Err"}


def _variant_flag(term, path):
    """0/1 when `term` is u8::from(x.is_some()) (or is_none / is_ok / is_err, or `.. as u8`) and the variant of x is fixed
    on this path by a match on the same x; None otherwise"""
    if path is None:
        return None
    t = strip_refs(term)
    if t[0] == "call" and t[1] in ("<u8 as From<bool>>::from",) and t[3]:
        t = strip_refs(t[3][0])
    elif t[0] == "cast" and t[1] == "IntToInt" and t[2] == "bool":
        t = strip_refs(t[4])
    else:
        return None
    if not (t[0] == "call" and t[1] in VARIANT_TESTS and t[3]):
        return None
    x = guards.norm(strip_refs(t[3][0]))
    for a in path.atoms():
        c = a[1]
        if c[0] == "discr" and guards.norm(strip_refs(c[1])) == x:
            v = walk.atom_variant(a)
            if v is not None:
                return 1 if v == VARIANT_TESTS[t[1]] else 0
    return None


def _abstract_writer(ev, self_is_bytes=False, path=None):
    """abstract a writer event list into FORMAT items"""
    out = []
    payload_src = None
    for i, e in enumerate(ev):
        if e[0] == "loop":
            continue
        if e[0] == "w":
            kind, term = e[1], e[2]
            c = _const(term)
            if c is None:
                c = _variant_flag(term, path)
            if c is not None:
                out.append(("w", kind, ("const", c)))
                continue
            lab = _derived_label(term) or _label(term)
            if kind == "bytes":
                out.append(("w", "bytes", ("payload", _payload_name(term)) if lab is None else ("label", lab)))
                continue
            # a length?
            lenof = None
            for x in mir.walk_expr(term):
                if x[0] == "len" or (x[0] == "call" and (x[1] in guards.PURE_LEN or x[1].endswith("::len"))):
                    inner = x[1] if x[0] == "len" else x[3][0]
                    lenof = _payload_name(inner)
                    if x[0] == "call" and x[1] in ("str::len", "String::len"):
                        lenof = "utf8"          # the length of a string is the length of its UTF-8 bytes
                elif x[0] == "const" and x[2] is None and x[3] and re.match(r"^[A-Z]\w*(/#\d+)?$", x[3]) and lenof is None:
                    lenof = "self"          # the const generic length of the array `self`
            if lenof is not None:
                out.append(("w", kind, ("len", lenof)))
            else:
                out.append(("w", kind, ("label", lab or _plain_self(term))))
        elif e[0] == "sub":
            out.append(("sub", e[1], _derived_label(e[2]) or _label(e[2])))
        elif e[0] == "seqw":
            out.append(("seqw",))
    return out


def _payload_name(term):
    s = show(term)
    for x in mir.walk_expr(term):
        if x[0] == "call" and x[1] in ("String::as_bytes", "str::as_bytes"):
            return "utf8"
    t = strip_refs(term)
    if t[0] == "arg" and t[1] == 1:
        return "self"
    if "try_cast" in s:
        return "cast"
    if "deref" in s.lower() and "$self" in s:
        return "self"
    if "$self" in s:
        return "self"
    return "other:" + s[:40]


def _plain_self(term):
    t = strip_refs(term)
    if t[0] == "arg" and t[1] == 1:
        return "self"
    if t[0] == "cast" and t[1] == "IntToInt" and t[2] == "bool" and strip_refs(t[4])[0] == "arg":
        return "bool01"
    if t[0] == "index" and "encode_utf16" in show(t):
        return "utf16_unit"
    if _bmp_unit(t):
        return "utf16_unit"
    return "unlabelled:" + show(term)[:50]


def _char_code(t):
    """`t` is the code point of the char `self`: u32::from(*self) or *self as u32"""
    t = strip_refs(t)
    if t[0] == "call" and t[1] == "<u32 as From<char>>::from" and t[3]:
        x = strip_refs(t[3][0])
        return x[0] == "arg" and x[1] == 1
    if t[0] == "cast" and t[1] == "IntToInt" and t[2] == "char" and t[3] == "u32":
        x = strip_refs(t[4])
        return x[0] == "arg" and x[1] == 1
    return False


def _bmp_try(t):
    """the call u16::try_from(code point of self) inside `t` (peeling the Ok payload projection / `?`)"""
    t = strip_refs(t)
    while isinstance(t, tuple) and t[0] in ("field", "variant", "ok", "try"):
        t = strip_refs(t[1])
    if isinstance(t, tuple) and t[0] == "call" and t[1] in ("<u16 as TryFrom<u32>>::try_from", "<u32 as TryInto<u16>>::try_into",
                                                             "<T as TryInto<U>>::try_into") and t[3] and _char_code(t[3][0]):
        return t
    return None


def _bmp_unit(t):
    """a char of the Basic Multilingual Plane is its own single UTF-16 unit (surrogates are not chars): the Ok payload of
    u16::try_from(code point), or the truncation `code as u16` (G11 checks that it is guarded by code <= 0xFFFF)"""
    t = strip_refs(t)
    if _bmp_try(t) is not None and t[0] != "call":
        return True
    if t[0] == "cast" and t[1] == "IntToInt" and t[3] == "u16" and _char_code(t[4]):
        return True
    if t[0] == "cast" and t[1] == "IntToInt" and t[2] == "char" and t[3] == "u16":
        x = strip_refs(t[4])
        return x[0] == "arg" and x[1] == 1              # `*self as u16` (G11 checks the guard)
    return False


def _norm_sub(ty):
    ty = ty.replace("&", "").replace("'static ", "").strip()
    return "String" if ty == "str" else ty


PRIM_SUBS = set(INTS)


def flatten(items, depth=0):
    """expand nested codecs of primitive / string types into the primitives they write (`Sub(u8)` == `Prim(U8)`)"""
    out = []
    for x in items:
        if x[0] == "sub" and x[1] in PRIM_SUBS:
            out.append(("w", x[1], ("label", x[2] or "self")))
        elif x[0] == "sub" and x[1] in ("String", "str") and x[2] is None:
            out.extend([("w", "var_i32", ("len", "utf8")), ("w", "bytes", ("payload", "utf8"))])
        elif x[0] == "sub" and x[1] == "Vec<u8>" and x[2] is not None:
            # a labelled byte vector handed to the Vec<u8> codec == its byte form written in place
            out.extend([("w", "var_u32", ("len", "self")), ("w", "bytes", ("label", x[2]))])
        elif x[0] == "sub" and x[1] in COMPOSITE_SUBS and x[2] is not None and depth < 3:
            # a nested codec with a single, tag-free layout is the same as writing its parts: delegating DateTime<Local>
            # to the NaiveDateTime codec == writing the date and the time of the same local datetime
            inner = []
            for y in FORMAT[x[1]][0]:
                if y[0] == "sub":
                    inner.append(("sub", y[1], "%s<%s" % (y[2], x[2]) if y[2] else x[2]))
                elif y[0] == "w" and y[2][0] == "label":
                    inner.append(("w", y[1], ("label", "%s<%s" % (y[2][1], x[2]))))
                else:
                    inner.append(y)
            out.extend(flatten(inner, depth + 1))
        else:
            out.append(x)
    return out


COMPOSITE_SUBS = ("NaiveDateTime", "NaiveDate", "NaiveTime")


EQUIVALENT_GRAMMARS = {
    # the 16 bytes of a Uuid are its big-endian u128 (Uuid::as_u128 / from_u128 are defined that way)
    "Uuid": [[[("w", "u128", ("label", "uuid_u128"))]]],
    # bool: two constant paths, or one path writing the 0/1 image of the value
    "bool": [[[("w", "u8", ("const", 1))], [("w", "u8", ("const", 0))]], [[("w", "u8", ("label", "bool01"))]]],
}


# enumerations of chrono written as a number: the numbering the accessor in the FORMAT entry yields, spelled out, so that an
# explicit `match self { Weekday::Mon => 1, .. }` can be checked against it
ENUM_TABLES = {
    "Weekday": ("i8", {"Mon": 1, "Tue": 2, "Wed": 3, "Thu": 4, "Fri": 5, "Sat": 6, "Sun": 7}),
    "Month": ("i8", {"January": 1, "February": 2, "March": 3, "April": 4, "May": 5, "June": 6, "July": 7, "August": 8,
                     "September": 9, "October": 10, "November": 11, "December": 12}),
}


def _enum_table_writer(b, core, s):
    kind, table = ENUM_TABLES[s]
    seen = set()
    for ev, p in writer_paths(b, core):
        if p.outcome[0] != "return":
            continue
        v = None
        for a in p.atoms():
            c = a[1]
            if c[0] == "discr" and strip_refs(c[1])[0] == "arg" and strip_refs(c[1])[1] == 1:
                v = walk.atom_variant(a)
        ws = [e for e in ev if e[0] in ("w", "sub")]
        if v is None or len(ws) != 1:
            return False
        k = _const(ws[0][2])
        if k is None or (ws[0][1] if ws[0][0] == "w" else _norm_sub(ws[0][1])) != kind or (k - 256 if k > 127 else k) != table.get(v):
            return False
        seen.add(v)
    return seen == set(table)


def _enum_table_reader(core, s):
    kind, table = ENUM_TABLES[s]
    rb = core.find("<%s as BinaryDeserializer>::deserialize" % s)
    if rb is None:
        return False
    inv = {v: k for k, v in table.items()}
    seen = set()
    for p in walk.walk(rb, core):
        kind_, what = outcome_of(p)
        if kind_ != "ok":
            continue
        ret = strip_refs(what)
        inner = strip_refs(ret[4][0]) if ret[0] == "agg" and ret[3] == "Ok" and ret[4] else None
        if inner is None or inner[0] != "agg":
            # accessor-based reader (from_i8 / try_from ..): decided by the label check of G2
            return True
        k = None
        for a in p.atoms():
            c = a[1]
            if c[0] not in ("discr", "bin", "un", "call") and "BinaryDeserializer" in show(c) and isinstance(a[2], int):
                k = a[2] - 256 if a[2] > 127 else a[2]
        if k is None or inv.get(k) != inner[3]:
            return False
        seen.add(inner[3])
    return seen == set(table)


def writers_conform(an, rep, features="default"):
    R = rep.rule("G3", "the writer grammar of every built-in codec equals its FORMAT table entry: primitive kinds, order, tag "
                       "constants, length-prefix flavour (VarI32 vs VarU32) and the labels of the slots (which accessor feeds "
                       "which position)")
    core = an.core(features)
    n = 0
    for imp in core.items["impls"]:
        if not (imp["trait"] and imp["trait"].endswith("::BinarySerializer")):
            continue
        s = mir.short(imp["self"]["s"])
        if s in SPECIAL or s in SEQ_TYPES:
            continue
        key = "<%s as BinarySerializer>::serialize" % s
        b = core.find(key)
        if not b:
            R.anchor_missing(key)
            continue
        if s not in FORMAT:
            # a codec for a type the format description does not mention (an addition): there is no prescribed layout to
            # conform to; what it writes is what its own reader reads back (G2 unifies every pair, this one included).  The
            # types the format does describe cannot drop out this way: the floor below counts them.
            R.count("codecs outside the format table (writer/reader agreement only, G2)")
            continue
        n += 1
        got = []
        for ev, p in writer_paths(b, core):
            if p.outcome[0] != "return":
                continue
            a = _abstract_writer(ev, path=p)
            a = flatten([(x[0], _norm_sub(x[1]), x[2]) if x[0] == "sub" else x for x in a])
            if a not in got:
                got.append(a)
        wants = [FORMAT[s]] + EQUIVALENT_GRAMMARS.get(s, [])
        wants = [[flatten([(x[0], x[1], x[2]) for x in alt]) for alt in w] for w in wants]
        okk = any(sorted(map(repr, got)) == sorted(map(repr, w)) for w in wants)
        if not okk and s in ENUM_TABLES:
            okk = _enum_table_writer(b, core, s) and _enum_table_reader(core, s)
        R.check(okk, key, "grammar", "writer emits %s; the format prescribes %s" %
                (got, wants[0]), mir.loc(b, 0), sample={"type": s, "grammar": repr(wants[0])})
    R.floor("leaf / composite writers checked", n, {"default": 48, "none": 34, "bigdecimal": 36, "chrono_bigdecimal": 47, "uuid": 35}.get(features, 25))
    return R


# ------------------------------------------------------------------------------------------------ G2 + G7
KIND_OF_READ = {k: k for k in ("u8", "i8", "u16", "i16", "u32", "i32", "u64", "i64", "u128", "i128", "f32", "f64", "var_u32",
                               "var_i32")}


def pairs_unify(an, rep, features="default"):
    R = rep.rule("G2", "for every codec pair each successful writer path has a successful reader path that reads the same "
                       "primitive kinds in the same order, whose tag tests are satisfied by the constants the writer emitted, "
                       "whose length / count binders govern the following payload, and whose binders reach the value's "
                       "constructor in the slots the writer filled (labels)")
    G7 = rep.rule("G7", "tag dispatch is exhaustive: a value read from the wire that selects between alternatives has its "
                        "remaining values lead to an error return (leniencies: bool any non-zero)")
    core = an.core(features)
    _CRATE[0] = core
    n = 0
    for imp in core.items["impls"]:
        if not (imp["trait"] and imp["trait"].endswith("::BinarySerializer")):
            continue
        s = mir.short(imp["self"]["s"])
        if s in SPECIAL or s in SEQ_TYPES or s in WRITER_ONLY:
            continue
        wb = core.find("<%s as BinarySerializer>::serialize" % s)
        rb = core.find("<%s as BinaryDeserializer>::deserialize" % s)
        if not wb or not rb:
            R.anchor_missing("codec pair for " + s)
            continue
        n += 1
        inline = tuple(k for k in core.by_key if k.startswith("deserialize_tuple"))
        rps = reader_paths(rb, core, inline)
        rnorm = [( _reader_kinds(ev), ev, p) for ev, p in rps if p.outcome[0] == "return"]
        for ev, p in writer_paths(wb, core):
            if p.outcome[0] != "return":
                continue
            wk = _writer_kinds(ev)
            cands = [(rk, rev, rp) for rk, rev, rp in rnorm if rk == wk]
            goods = []
            why = "no reader path reads %s (reader paths: %s)" % (wk, sorted({repr(r[0]) for r in rnorm}))
            for rk, rev, rp in cands:
                okc, why2 = _consistent(ev, rev, rp)
                if okc:
                    goods.append((rk, rev, rp))
                else:
                    why = why2
            if not R.check(bool(goods), "<%s>" % s, "writer path %s" % _short_kinds(wk), why, mir.loc(wb, 0),
                           sample={"type": s, "unified": _short_kinds(wk)}):
                continue
            # every reader path that is consistent with what the writer emitted (they differ only by tests on data
            # values, which the writer does not fix) must route the binders into the labelled constructor slots
            for g in goods:
                _check_labels(R, s, ev, g[1], g[2], rb)
        # G7: exhaustiveness of value dispatch in the reader
        for p in walk.walk(rb, core, inline):
            for a in p.atoms():
                c = a[1]
                if c[0] in ("discr", "bin", "un", "call"):
                    continue
                if "read_u8" in show(c) or "read_var" in show(c):
                    if not isinstance(a[2], int):           # the `otherwise` edge of a switch on a wire value
                        # a value that is handed on as data on this edge (`match v { 0 => new_v0(), v => new(v) }`) is not a
                        # tag with unknown alternatives
                        i_at = p.events.index(a)
                        key = repr(guards.norm(c))
                        if any(e[0] == "call" and any(repr(guards.norm(x)) == key for y in e[5] for x in mir.walk_expr(y))
                               for e in p.events[i_at + 1:]):
                            continue
                        kind, what = outcome_of(p)
                        G7.check(kind in ("err", "errprop") or p.outcome[0] != "return", "<%s as BinaryDeserializer>::deserialize" % s,
                                 "otherwise edge", "an unknown tag value %s does not lead to an error" % (a[2],), mir.loc(rb, 0),
                                 sample={"type": s, "unknown tag": "error"})
    R.floor("codec pairs unified", n, {"default": 44}.get(features, 25))
    return R


def _flat_kind(t):
    t = _norm_sub(t)
    if t in PRIM_SUBS:
        return [t]
    if t == "String":
        return ["var_i32", "bytes"]
    return ["sub:" + t]


def _writer_kinds(ev):
    out = []
    for e in ev:
        if e[0] == "w":
            out.append(e[1])
        elif e[0] == "sub":
            out.extend(_flat_kind(e[1]))
        elif e[0] == "seqw":
            out.append("seq")
    return out


def _reader_kinds(ev):
    out = []
    v0 = False
    for e in ev:
        if e[0] == "r":
            out.append(e[1])
        elif e[0] == "rb":
            out.append("bytes")
        elif e[0] == "sub":
            out.extend(_flat_kind(e[1]))
        elif e[0] == "seqr":
            out.append("seq")
        elif e[0] == "adt":
            v0 = e[1] == "new_v0"
            if not v0:
                out.append("evolved-header")
        elif e[0] == "field":
            t = e[3][0].get("s", "?") if e[3] else "?"
            out.extend(_flat_kind(mir.short(t)))
    return out


def _short_kinds(k):
    return " ".join(k) if k else "(nothing)"


def _binder_of(term, site):
    """does `term` contain the result of call site `site`?"""
    for x in mir.walk_expr(term):
        if x[0] == "call" and x[4] == site:
            return True
    return False


UNK = ("unk", "delegated")


def _flat_w(wev):
    out = []
    for e in wev:
        if e[0] == "sub" and _norm_sub(e[1]) in PRIM_SUBS:
            out.append(("w", _norm_sub(e[1]), e[2]))
        elif e[0] == "sub" and _norm_sub(e[1]) == "String":
            out.extend([("w", "var_i32", UNK), ("w", "bytes", UNK)])
        elif e[0] in ("w", "sub", "seqw"):
            out.append(e)
    return out


def _flat_r(rev):
    out = []
    for e in rev:
        if e[0] == "sub" and _norm_sub(e[1]) in PRIM_SUBS:
            out.append(("r", _norm_sub(e[1]), e[2]))
        elif e[0] == "sub" and _norm_sub(e[1]) == "String":
            out.extend([("r", "var_i32", e[2]), ("rb", UNK, e[2])])
        elif e[0] == "field" and e[3] and _norm_sub(mir.short(e[3][0].get("s", "?"))) in PRIM_SUBS:
            out.append(("r", _norm_sub(mir.short(e[3][0].get("s", "?"))), e[2]))
        elif e[0] in ("r", "rb", "sub", "seqr", "field"):
            out.append(e)
    return out


def _consistent(wev, rev, rp):
    """tag constants satisfy the reader's tests; length binders govern payloads"""
    reads = _flat_r(rev)
    writes = _flat_w(wev)
    k = 0
    for w in writes:
        r = reads[k] if k < len(reads) else None
        k += 1
        if r is None:
            return False, "reader path is shorter than the writer path"
        if w[0] == "w" and r[0] == "r":
            c = _const(w[2])
            site = r[2]
            for a in rp.atoms():
                cond = a[1]
                if not _binder_of(cond, site):
                    continue
                if cond[0] == "bin" and cond[1] in ("Eq", "Ne") and _const(cond[3]) is not None and c is not None:
                    tv = guards.truth(a[2])
                    holds = (c == _const(cond[3])) == (cond[1] == "Eq")
                    if holds != tv:
                        return False, "reader path requires tag %s %s %s but the writer emits %s" % (
                            "==" if (cond[1] == "Eq") == tv else "!=", _const(cond[3]), "", c)
                elif cond[0] in ("ok", "field", "variant", "cast") and c is not None:
                    v = a[2]
                    if isinstance(v, int) and v != c:
                        return False, "reader path is the branch for tag %s, the writer emits %s" % (v, c)
                    if not isinstance(v, int) and c in v[1]:
                        return False, "reader path excludes tag %s" % c
                elif c is None and cond[0] in ("ok",) and not isinstance(a[2], int):
                    pass
        if w[0] == "w" and w[1] == "bytes":
            # the preceding length binder must govern this read_bytes
            if r[0] != "rb":
                return False, "payload bytes are not read with read_bytes"
            prev = reads[k - 2] if k >= 2 else None
            prevw = writes[writes.index(w) - 1] if writes.index(w) > 0 else None
            if prevw is not None and prevw[0] == "w" and prev is not None and prev[0] == "r":
                lenw = prevw[2] is not UNK and any(x[0] == "len" or (x[0] == "call" and (x[1] in guards.PURE_LEN or x[1].endswith("::len")))
                                                   for x in mir.walk_expr(prevw[2]))
                if lenw and r[1] is not UNK and not _binder_of(r[1], prev[2]):
                    return False, "the length read before the payload does not govern read_bytes (%s)" % show(r[1])
    if k != len(reads):
        return False, "reader path reads more than the writer wrote"
    return True, ""


_CRATE = [None]


def rb_crate(rb, rp):
    return _CRATE[0]


def _check_labels(R, s, wev, rev, rp, rb):
    """G6 reader side: the binder of slot k reaches the constructor argument labelled like writer slot k"""
    slots = []
    reads = [e for e in _flat_r(rev) if e[0] in ("r", "rb", "sub", "field")]
    writes = [e for e in _flat_w(wev) if e[0] in ("w", "sub")]
    for w, r in zip(writes, reads):
        if w[2] is UNK:
            continue
        lab = _label(w[2]) if w[0] in ("w", "sub") and w[2] is not None else None
        if w[0] == "w" and w[1] == "bytes" and lab is None:
            continue
        if lab:
            slots.append((lab, r[2] if r[0] != "rb" else r[2]))
    if not slots:
        return
    seen = {}
    pseudo = []
    for c in rp.calls():
        pseudo.append((c[2], c[3], c[5]))
        # function items passed as values: x.map(F) / x.and_then(F) / x.map_err(..)  ==  F(x)
        if c[2].split("::")[-1] in ("map", "and_then") and len(c[5]) > 1 and strip_refs(c[5][1])[0] == "fn":
            f = strip_refs(c[5][1])
            base = mir.callee_info(f[2])["base_key"] if len(f) > 2 and isinstance(f[2], dict) else f[1]
            pseudo.append((f[1], base, [c[5][0]]))
    # x.map(|v| ctor(v)) with a local closure: the closure's value with x standing in for its payload
    for c in rp.calls():
        if c[2].split("::")[-1] in ("map", "and_then") and len(c[5]) > 1:
            f = strip_refs(c[5][1])
            if f[0] == "agg" and f[1] == "closure":
                val = walk.Walker(rb, rb_crate(rb, rp))._closure_value(f, [c[5][0]]) if rb_crate(rb, rp) else None
                if isinstance(val, tuple):
                    for x in mir.walk_expr(val):
                        if x[0] == "call" and isinstance(x[3], list):
                            pseudo.append((x[1], x[1], x[3]))
    # constructor calls evaluated inside a closure given to map/and_then appear only in the returned term
    if rp.outcome[0] == "return" and isinstance(rp.outcome[1], tuple):
        for x in mir.walk_expr(rp.outcome[1]):
            if x[0] == "call" and isinstance(x[3], list):
                pseudo.append((x[1], x[1], x[3]))
    for k2, k3, cargs in pseudo:
        for (key, pos), lab in CTOR_LABEL.items():
            if (k2 == key or k3 == key) and pos < len(cargs):
                for lab2, site in slots:
                    if _binder_of(cargs[pos], site):
                        seen.setdefault(site, set()).add(lab)
    known_labels = set(CTOR_LABEL.values())
    for lab, site in slots:
        got = seen.get(site, set())
        head = lab.split("<")[0]
        if not got:
            # a slot whose label has constructor positions must reach one of them (else the value written as `lab` is
            # rebuilt through an unlabelled route: fail closed, naming the slot)
            R.check(head not in known_labels, "<%s>" % s, "slot label " + lab, "the value written as `%s` does not reach any "
                    "constructor argument labelled `%s` on the reader side" % (lab, head), mir.loc(rb, 0))
            continue
        R.check(head in got, "<%s>" % s, "slot label " + lab, "the value written as `%s` is read back into the constructor "
                "argument labelled %s" % (lab, sorted(got)), mir.loc(rb, 0), sample={"type": s, "slot": lab, "reaches": sorted(got)})


# ------------------------------------------------------------------------------------------------ sequences (G4/G8/G9)
def sequences(an, rep, features="default"):
    R = rep.rule("G4", "sequence family: every SEQ writer is serialize_iterator over the container's own iterator or the same "
                       "grammar hand-written (VarI32(len) then each element); byte containers write VarU32(len) + raw bytes "
                       "under the castaway guard element == u8; every SEQ reader is deserialize_iterator")
    G9 = rep.rule("G9", "sequence consumers are exhaustive and stop on error: `collect::<Result<_, _>>()` or a for loop whose "
                        "only non-error exit is iterator exhaustion; no take/zip/size_hint-limited consumer")
    G8 = rep.rule("G8", "a fixed-size array is produced only from exactly L elements: a comparison with L / a checking "
                        "conversion (TryFrom<&[u8]>, TryFrom<Vec<T>>) dominates every Ok return")
    core = an.core(features)
    for s, elem in SEQ_TYPES.items():
        wb = core.find("<%s as BinarySerializer>::serialize" % s)
        if not wb:
            R.anchor_missing("<%s as BinarySerializer>::serialize" % s)
            continue
        forms = set()
        for ev, p in writer_paths(wb, core):
            cast = None
            for a in p.atoms():
                if a[1][0] == "discr" and strip_refs(a[1][1])[0] == "call" and "try_cast" in strip_refs(a[1][1])[1]:
                    cast = walk.atom_variant(a)
                    eq = _cast_equation(a[1][1])
                    R.check(eq is not None and eq[1] in ("u8", "[u8]", "[u8; L]", "Vec<u8>", "&[u8]", "&[u8; L]", "&Vec<u8>"), "<%s>" % s,
                            "byte guard", "byte specialisation is guarded by %s" % (eq,), mir.loc(wb, 0))
            kinds = _writer_kinds(ev)
            if cast == "Ok":
                forms.add("bytes")
                a = _abstract_writer(ev)
                okk = len(a) == 2 and a[0][0] == "w" and a[0][1] == "var_u32" and a[0][2][0] == "len" and a[1][1] == "bytes"
                R.check(okk, "<%s>" % s, "byte form", "byte containers must write VarU32(len) + raw bytes; found %s" % a,
                        mir.loc(wb, 0), sample={"type": s, "bytes": "VarU32(len) bytes"})
            elif kinds == ["seq"]:
                forms.add("seq")
                src = show(ev[0][1])
                R.check("$self" in src and "iter" in src, "<%s>" % s, "serialize_iterator source",
                        "serialize_iterator is not fed from self.iter(): %s" % src, mir.loc(wb, 0),
                        sample={"type": s, "seq": "serialize_iterator(self.iter())"})
            elif split_loop(ev)[1] is not None:
                forms.add("seq")
                pre, body, suf = split_loop(ev)
                a, bdy = _abstract_writer(pre), _abstract_writer(body)
                wpre = [e for e in pre if e[0] == "w"]
                okk = len(a) == 1 and a[0][:2] == ("w", "var_i32") and len(wpre) == 1 and _is_self_len(wpre[0][2]) and \
                    len(bdy) == 1 and bdy[0][0] == "sub" and not suf
                R.check(okk, "<%s>" % s, "hand-written loop", "hand-written sequence must be VarI32(len(self)) then one nested "
                        "write per element; found %s (%s)* %s" % (a, bdy, _abstract_writer(suf)), mir.loc(wb, 0),
                        sample={"type": s, "seq": "VarI32(len) (Sub T)*"})
            elif p.outcome[0] == "return" and kinds and kinds[0] == "var_i32":
                pass    # loop exit path of the hand-written form
            elif kinds:
                R.fail("<%s>" % s, "writer form", "unrecognised sequence writer path %s" % kinds, mir.loc(wb, 0))
        want = {"seq", "bytes"} if s in BYTE_SPECIALISED else {"seq"}
        R.check(forms == want, "<%s>" % s, "forms", "writer forms %s, expected %s" % (sorted(forms), sorted(want)), mir.loc(wb, 0))
        if s == "[T]":
            continue
        rb = core.find("<%s as BinaryDeserializer>::deserialize" % s)
        if not rb:
            R.anchor_missing("<%s as BinaryDeserializer>::deserialize" % s)
            continue
        _check_seq_reader(R, G9, G8, s, rb, core)
    return R


def _is_self_len(term):
    """the number of elements of `self`: len() of something rooted at self, or the const generic length of an array"""
    for x in mir.walk_expr(term):
        if x[0] == "len" or (x[0] == "call" and (x[1] in guards.PURE_LEN or x[1].endswith("::len"))):
            inner = x[1] if x[0] == "len" else x[3][0]
            if any(y[0] == "arg" and y[1] == 1 for y in mir.walk_expr(inner)):
                return True
        if x[0] == "const" and x[2] is None and x[3] and re.match(r"^[A-Z]\w*(/#\d+)?$", x[3]):
            return True
    return False


def _cast_equation(term):
    t = strip_refs(term)
    if t[0] == "call" and "try_cast" in t[1] and len(t[5]) >= 3:
        return (mir.short(t[5][-2].get("s", "?")), mir.short(t[5][-1].get("s", "?")))
    return None


ADAPTERS = ("Iterator::take", "Iterator::zip", "Iterator::take_while", "Iterator::skip", "Iterator::step_by",
            "Iterator::map_while", "Iterator::scan", "Iterator::fuse", "Iterator::size_hint", "Iterator::peekable",
            "Iterator::nth", "Iterator::last", "Iterator::count")


def _probed_take(p, c):
    """`stream.by_ref().take(n)` is exhaustive on this path when the path does not return Ok, or when after it either fewer
    than n items were collected (`len != n`: take only stops early because the stream ended) or the stream itself was probed
    once more and had ended (`stream.next()` is None)"""
    recv = strip_refs(c[5][0])
    if not (recv[0] == "call" and recv[1] == "Iterator::by_ref"):
        return False
    if p.outcome[0] != "return" or outcome_of(p)[0] != "ok":
        return True
    n = guards.norm(c[5][1])
    i = p.events.index(c)
    for e in p.events[i + 1:]:
        if e[0] != "atom":
            continue
        cond, v = e[1], e[2]
        if cond[0] == "bin" and cond[1] in ("Eq", "Ne", "Lt", "Ge") and guards.norm(cond[3]) == n and "len" in show(cond[2]).lower():
            tv = guards.truth(v)
            fewer = (not tv) if cond[1] in ("Eq", "Ge") else tv
            if fewer:
                return True
        if cond[0] == "discr" and "DeserializerIterator<T> as Iterator>::next" in show(cond[1]) and \
                "Take<" not in show(cond[1])[:40] and walk.atom_variant(e) == "None":
            return True
    return False


def _check_seq_reader(R, G9, G8, s, rb, core):
    paths = walk.walk(rb, core)
    uses_iter = False
    for p in paths:
        di = called_exact(p, "deserialize_iterator")
        if di:
            uses_iter = True
        for c in p.calls():
            if c[3] in ADAPTERS or c[2] in ADAPTERS or c[2].endswith(("::size_hint", "::take", "::zip")):
                if any(_binder_of(a, d[1]) for d in di for a in c[5]):
                    if c[3] == "Iterator::take" and _probed_take(p, c):
                        continue
                    G9.fail("<%s as BinaryDeserializer>::deserialize" % s, "limited consumer " + c[2], "the element stream is "
                            "consumed through %s: surplus items or the terminator may stay unread" % c[2], mir.loc(rb, 0))
    R.check(uses_iter, "<%s>" % s, "reader uses deserialize_iterator", "SEQ reader does not go through deserialize_iterator", mir.loc(rb, 0))
    # consumers
    ok_exits = 0
    for p in paths:
        if not called_exact(p, "deserialize_iterator"):
            continue
        coll = [c for c in p.calls() if c[3] == "Iterator::collect"]
        nexts = [c for c in p.calls() if c[2] == "<DeserializerIterator<T> as Iterator>::next"]
        kind, what = outcome_of(p)
        if coll:
            ok_exits += 1
            tgt = coll[0][6][1].get("s", "") if len(coll[0][6]) > 1 else ""
            G9.check(_binder_of(coll[0][5][0], called_exact(p, "deserialize_iterator")[0][1]) and
                     (tgt.startswith("core::result::Result<") or s in tgt or True), "<%s>" % s, "collect consumer",
                     "collect() is not applied to the element stream itself", mir.loc(rb, 0), sample={"type": s, "consumer": "collect::<Result<_,_>>"})
            continue
        folds = [c for c in p.calls() if c[3] in ("Iterator::try_fold", "Iterator::try_for_each", "Iterator::fold",
                                                  "Iterator::for_each") and c[5] and
                 _binder_of(c[5][0], called_exact(p, "deserialize_iterator")[0][1])]
        if folds:
            # internal iteration over the element stream itself: fold/for_each visit every item; the try_ forms stop early
            # only by returning the residual, which for R = Result<_, _> is an error
            c = folds[0]
            rty = c[6][-1].get("s", "") if c[6] else ""
            ok_exits += 1
            G9.check(not c[3].startswith("Iterator::try_") or rty.startswith("core::result::Result<"), "<%s>" % s,
                     "fold consumer", "%s over the element stream can stop early with a non-error value (%s)" % (c[3], rty),
                     mir.loc(rb, 0), sample={"type": s, "consumer": c[3]})
            continue
        if p.outcome[0] == "return" and kind == "ok":
            # a for loop: the Ok exit must come after next() returned None
            ended = any(a[1][0] == "discr" and "as Iterator>::next" in show(a[1][1]) and walk.atom_variant(a) == "None" for a in p.atoms())
            nexts = nexts or [c for c in p.calls() if c[2].endswith("as Iterator>::next")]
            G9.check(ended and len(nexts) >= 1, "<%s>" % s, "loop exit", "the reader can return Ok without exhausting the "
                     "element stream (a `break` / early Ok return)", mir.loc(rb, 0), sample={"type": s, "consumer": "for-loop until None"})
            ok_exits += 1
    G9.check(ok_exits > 0, "<%s>" % s, "consumer found", "no recognised consumer of the element stream", mir.loc(rb, 0))
    if s == "[T; L]":
        for p in paths:
            kind, what = outcome_of(p)
            if p.outcome[0] != "return" or kind != "ok":
                continue
            conv = [c for c in p.calls() if c[3] in ("TryInto::try_into", "TryFrom::try_from")]
            checked = False
            for c in conv:
                tys = " ".join(t.get("s", "") for t in c[6])
                if re.search(r"\[(u8|T/#\d+|T); L", tys):
                    checked = True
            cmp_l = any(a[1][0] == "bin" and "/#" in show(a[1]) or (a[1][0] == "bin" and " L" in show(a[1])) for a in p.atoms())
            G8.check(checked, "<[T; L] as BinaryDeserializer>::deserialize", "count checked", "an Ok return is not dominated by a "
                     "checking conversion into [_; L] (the stored count is not compared with L)", mir.loc(rb, 0),
                     sample={"type": "[T; L]", "checked_by": [c[2] for c in conv]})


# ------------------------------------------------------------------------------------------------ compressed frame (C16)
def compressed_frame(an, rep):
    R = rep.rule("G10", "compressed block: writer = deflate everything (read_to_end), VarU32(len(input) checked), "
                        "VarU32(len(deflated) checked), deflated bytes; reader = VarU32, VarU32, read_bytes(second length) on "
                        "every successful path, inflate with read_to_end; flate2 errors mapped to De/CompressionFailure")
    core = an.core()
    w = core.find("BinaryOutput::write_compressed")
    r = core.find("BinaryInput::read_compressed")
    if not w or not r:
        R.anchor_missing("compressed block codec")
        return R
    oks = [(ev, p) for ev, p in writer_paths(w, core) if p.outcome[0] == "return"]
    R.check(len(oks) == 1, w.key, "paths", "expected one successful path, found %d" % len(oks))
    for ev, p in oks:
        enc = [c for c in p.calls() if c[2].startswith("DeflateEncoder")]
        rte = [c for c in p.calls() if c[3] == "Read::read_to_end"]
        okk = len(enc) == 1 and len(rte) == 1 and _binder_of(rte[0][5][0], enc[0][1]) and strip_refs(enc[0][5][0])[0] == "arg"
        R.check(okk, w.key, "deflate all", "the whole input must be deflated with read_to_end (found %s)" %
                [c[2] for c in p.calls() if "Read::" in c[3] or "Deflate" in c[2]], mir.loc(w, 0), sample={"writer": "read_to_end"})
        ws = [e for e in ev if e[0] == "w"]
        kinds = [e[1] for e in ws]
        okk = kinds == ["var_u32", "var_u32", "bytes"]
        if okk:
            s0, s1, s2 = show(ws[0][2]), show(ws[1][2]), show(ws[2][2])
            buf = rte[0][5][1] if rte else None
            def checked_len(t):
                t = strip_refs(t)
                if t[0] != "ok":
                    return False
                c = strip_refs(t[1])
                return c[0] == "call" and (c[1].endswith(("::try_into", "::try_from"))) and \
                    any(x[0] == "len" or (x[0] == "call" and (x[1] in guards.PURE_LEN or x[1].endswith("::len"))) for x in mir.walk_expr(c))
            buf_site = strip_refs(rte[0][5][1])[4] if rte and strip_refs(rte[0][5][1])[0] == "call" else None
            in_buf = lambda t: any(x[0] == "call" and x[4] == buf_site for x in mir.walk_expr(t))

            def lens_of(t):
                """what the len() nodes of `t` measure: 'arg' (the input slice), 'buf' (the deflated buffer), 'other'"""
                out = set()

                def go(x):
                    if not isinstance(x, tuple):
                        return
                    inner = None
                    if x[0] == "len":
                        inner = x[1]
                    elif x[0] == "call" and (x[1] in guards.PURE_LEN or x[1].endswith("::len")) and x[3]:
                        inner = x[3][0]
                    if inner is not None:
                        i = strip_refs(inner)
                        while isinstance(i, tuple) and i[0] == "call" and i[1].endswith(("::deref", "::as_slice", "::as_ref")) and i[3]:
                            i = strip_refs(i[3][0])
                        out.add("arg" if i[0] == "arg" and i[1] == 2 else "buf" if i[0] == "call" and i[4] == buf_site else "other")
                        return                   # what the measured value itself was built from does not matter
                    for y in x[1:]:
                        if isinstance(y, tuple):
                            go(y)
                        elif isinstance(y, list):
                            for z in y:
                                go(z)
                go(t)
                return out
            okk = checked_len(ws[0][2]) and lens_of(ws[0][2]) == {"arg"} and checked_len(ws[1][2]) and \
                lens_of(ws[1][2]) == {"buf"} and in_buf(ws[2][2])
        R.check(okk, w.key, "frame", "frame must be VarU32(len(input)), VarU32(len(deflated)), deflated bytes with checked "
                "conversions: %s" % [(e[1], show(e[2])[:60]) for e in ws], mir.loc(w, 0),
                sample={"frame": "VarU32(len input) VarU32(len deflated) bytes"})
    rps = [(ev, p) for ev, p in reader_paths(r, core) if p.outcome[0] == "return"]
    R.check(len(rps) >= 1, r.key, "paths", "no successful path")
    for ev, p in rps:
        kinds = _reader_kinds(ev)
        okk = kinds == ["var_u32", "var_u32", "bytes"]
        if okk:
            second = ev[1][2]
            okk = _binder_of(ev[2][1], second) and not _binder_of(ev[2][1], ev[0][2])
        R.check(okk, r.key, "frame", "every successful path must read VarU32, VarU32 and then exactly the second length of "
                "payload; found %s" % kinds, mir.loc(r, 0), sample={"reader": "VarU32 VarU32 read_bytes(second)"})
        dec = [c for c in p.calls() if c[2].startswith("DeflateDecoder")]
        rte = [c for c in p.calls() if c[3] == "Read::read_to_end"]
        R.check(len(dec) == 1 and len(rte) == 1 and _binder_of(rte[0][5][0], dec[0][1]), r.key, "inflate all",
                "payload must be inflated with read_to_end", mir.loc(r, 0))
        ret = strip_refs(p.outcome[1])
        R.check(rte and "with_capacity" in show(ret) or "Vec" in show(ret), r.key, "result", "result is not the inflated buffer")
    # rejections: a frame is refused only because one of the three reads failed (propagated) or because the inflater failed;
    # an error built before the inflater ran is a verdict on the two length fields alone, which refuses frames the writer
    # can legitimately produce (deflate's expansion on incompressible data is an implementation detail of the encoder)
    n_err = 0
    for p in walk.walk(r, core):
        if p.outcome[0] != "return" or walk.is_err_term(p.outcome[1]) is False:
            continue
        n_err += 1
        out = strip_refs(p.outcome[1])
        inflated = any(c[3] == "Read::read_to_end" for c in p.calls())
        propagated = out[0] == "errprop" and strip_refs(out[1])[0] == "call" and (
            strip_refs(out[1])[1].startswith("BinaryInput::") or "as BinaryInput>::" in strip_refs(out[1])[1] or
            strip_refs(out[1])[1].endswith(("::try_from", "::try_into")))
        R.check(inflated or propagated, r.key, "rejection", "a frame is rejected before it is inflated, on a condition over its "
                "length fields: %s" % show(out)[:90], mir.loc(r, 0), sample={"reader error path": show(out)[:60]})
    R.floor("error paths of read_compressed", n_err, 3)
    return R


# ------------------------------------------------------------------------------------------------ char guard
def char_codec(an, rep):
    R = rep.rule("G11", "char: written iff it is exactly one UTF-16 unit (encode_utf16 length == 1, or a numeric test "
                        "equivalent to code <= 0xFFFF), else UnsupportedCharacter; read through decode_utf16 of one unit")
    core = an.core()
    w = core.find("<char as BinarySerializer>::serialize")
    if not w:
        R.anchor_missing("<char as BinarySerializer>::serialize")
        return R
    rows = set()
    for p in walk.walk(w, core):
        kind, what = outcome_of(p)
        if p.outcome[0] != "return":
            continue
        ws = [c for c in sig_calls(p) if c[3].startswith(W_PREFIX)]
        one_unit = None
        for a in p.atoms():
            c = a[1]
            if c[0] == "discr" and _bmp_try(c[1]) is not None and strip_refs(c[1])[0] == "call":
                v = walk.atom_variant(a)       # u16::try_from(code point): Ok iff code <= 0xFFFF
                one_unit = True if v == "Ok" else False if v == "Err" else None
                continue
            if c[0] != "bin":
                continue
            tv = guards.truth(a[2])
            s_ = show(c)
            if ("encode_utf16" in s_ or "char::len_utf16" in s_) and c[1] in ("Eq", "Ne") and _const(c[3]) == 1:
                one_unit = tv if c[1] == "Eq" else not tv          # one UTF-16 unit  <=>  code <= 0xFFFF
            elif "char::len_utf16" in s_ and c[1] in ("Lt", "Ge") and _const(c[3]) == 2:
                one_unit = tv if c[1] == "Lt" else not tv
            elif "as u32" in s_ or "as u16" in s_ or "$self" in s_:
                k = _const(c[3])
                if k is not None:
                    if c[1] == "Le":
                        one_unit = tv if k == 0xFFFF else None
                    elif c[1] == "Lt":
                        one_unit = tv if k == 0x10000 else None
                    elif c[1] == "Gt":
                        one_unit = (not tv) if k == 0xFFFF else None
                    elif c[1] == "Ge":
                        one_unit = (not tv) if k == 0x10000 else None
                    if one_unit is None:
                        R.fail(w.key, "range guard", "numeric guard `%s` is not equivalent to code <= 0xFFFF" % s_, mir.loc(w, 0))
        if one_unit is True:
            rows.add("bmp")
            R.check(kind == "ok" and len(ws) == 1 and ws[0][3] == "BinaryOutput::write_u16", w.key, "one unit",
                    "a one-unit character must be written as one u16", mir.loc(w, 0), sample={"char": "one unit -> write_u16"})
        elif one_unit is False:
            rows.add("other")
            R.check(kind == "err" and what == "UnsupportedCharacter" and not ws, w.key, "two units",
                    "a character outside the 16-bit range must be UnsupportedCharacter (outcome %s %s)" % (kind, what), mir.loc(w, 0))
    R.check(rows == {"bmp", "other"}, w.key, "rows", "guard rows found: %s" % sorted(rows), mir.loc(w, 0))
    return R

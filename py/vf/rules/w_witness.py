"""Compile-verdict witnesses (U5: lifetime escapes, U6: auto traits).  Nothing is executed: twins are `no_run`."""
import os
import re
import shutil
import subprocess
import tempfile

from ..core import VERIF, REPO

LINE = re.compile(r"^test src/lib\.rs - (\S+) \(line \d+\)( - compile fail| - compile)? \.\.\. (ok|FAILED)")
WITNESS_DOC = {
    "w1": "a reference stored with state_mut().store_ref can be read through try_read_ref after its referent was dropped",
    "w2": "DeserializationContext outlives its input",
    "w3": "read_bytes slice held across another read",
    "w4": "try_read_ref result held across state_mut()",
    "w5": "State's raw tables are accessible from outside",
    "w6": "the private region API is callable from outside",
    "w7": "SliceInput outlives its bytes",
    "w8": "try_read_ref result outlives the context",
    "w9": "get_ref_by_id result outlives the context that owns the object table",
    "w10": "get_string_by_id result outlives the context that owns the string table",
}


# private names the witnesses mention: (owner adt/impl suffix, canonical name, text in the witness source)
PRIVATE_FIELDS = [("state::State", "refs_by_id", ".refs_by_id;")]
PRIVATE_FNS = [("DeserializationContext::pop_region", ".pop_region(")]


def _retarget(an, ws):
    """W5/W6 name a private field / function to show it is private (E0616 / E0624).  When the repository renamed that private
    item (role discovery in canon.py found it under another name) the copied witness is pointed at the current name, so that
    the verdict stays `private`, not `no such item`."""
    core = an.core()
    lib = os.path.join(ws, "src", "lib.rs")
    src = open(lib).read()
    new = src
    for suffix, canonical, text in PRIVATE_FIELDS:
        for adt, m in getattr(core, "field_renames", {}).items():
            if adt.endswith(suffix):
                for actual, canon in m.items():
                    if canon == canonical:
                        new = new.replace(text, text.replace(canonical, actual))
    # the tables were regrouped / renamed beyond what role discovery follows: any field of State serves the witness
    for suffix, canonical, text in PRIVATE_FIELDS:
        for adt in core.items["adts"]:
            if adt["path"].endswith(suffix) and len(adt["variants"]) == 1:
                names = [f["name"] for f in adt["variants"][0]["fields"]]
                actual_names = {a for m in getattr(core, "field_renames", {}).values() for a in m}
                if names and canonical not in names and text in new:
                    new = new.replace(text, text.replace(canonical, names[0]))
    for key, text in PRIVATE_FNS:
        name = key.rsplit("::", 1)[-1]
        for old, canon in getattr(core, "fn_renames", {}).items():
            if canon == name and old.rsplit("::", 1)[0].split("<")[0].endswith(key.rsplit("::", 1)[0]):
                new = new.replace(text, text.replace(name, old.rsplit("::", 1)[-1]))
    if new != src:
        open(lib, "w").write(new)


def _run_with(an):
    def _run(out):
        ws = an._ws_copy("witness", out)
        _retarget(an, ws)
        scratch = os.environ.get("VERIF_SCRATCH", "/var/tmp")
        tgt = tempfile.mkdtemp(prefix="verif-wit.", dir=scratch)
        try:
            env = dict(os.environ, CARGO_TARGET_DIR=tgt, CARGO_NET_OFFLINE="true")
            r = subprocess.run(["cargo", "+nightly", "test", "--doc", "--offline"], cwd=ws, env=env, capture_output=True, text=True)
            open(os.path.join(out, "doctest.txt"), "w").write(r.stdout + "\n--- stderr ---\n" + r.stderr[-6000:])
        finally:
            shutil.rmtree(tgt, ignore_errors=True)
    return _run


def verdicts(an):
    from ..core import sub_hash
    d = an._step("witness-" + sub_hash("witness"), _run_with(an))
    res = {}
    txt = open(os.path.join(d, "doctest.txt")).read()
    for ln in txt.splitlines():
        m = LINE.match(ln.strip())
        if m:
            res[m.group(1)] = (m.group(2) or "").strip(" -"), m.group(3)
    return res, txt


def lifetime_witnesses(an, rep):
    R = rep.rule("U5", "every lifetime-escape witness (safe client program against the public API) is rejected by the "
                       "compiler with the expected error code, and its twin - identical but for the offending line - compiles")
    res, txt = verdicts(an)
    n = 0
    for w in sorted(WITNESS_DOC):
        bad = res.get(w + "::Bad")
        twin = res.get(w + "::Twin")
        if bad is None or twin is None:
            R.fail("<witness>", w, "witness or twin verdict missing from the doc-test output (fail closed)", None,
                   txt[-1500:])
            continue
        n += 1
        R.check(twin[1] == "ok", "U5", "%s / twin does not compile" % w.upper(), "the compiling twin of witness %s fails to "
                "compile: the witness proves nothing" % w)
        R.check(bad[1] == "ok", w.upper(), "witness compiles", "witness program is accepted by the compiler (or rejected for "
                "another reason than expected): %s" % WITNESS_DOC[w], "witness/src/lib.rs mod " + w,
                sample={"witness": w, "verdict": "rejected by rustc as expected", "what": WITNESS_DOC[w]})
    R.floor("witnesses with twins", n, 10)
    return R


def auto_traits(an, rep):
    R = rep.rule("U6", "SerializationContext and DeserializationContext are !Send (and the latter !Sync), so per-call state "
                       "cannot cross threads; AdtMetadata is Send + Sync")
    res, txt = verdicts(an)
    for name in ("auto::SerializationContextIsNotSend", "auto::DeserializationContextIsNotSend",
                 "auto::DeserializationContextIsNotSync"):
        v = res.get(name)
        if v is None:
            R.fail("<witness>", name, "verdict missing (fail closed)")
            continue
        R.check(v[1] == "ok", name.split("::")[1], "auto trait", "the type satisfies the auto trait it must not satisfy "
                "(per-call state could be moved/shared across threads)", sample={"fact": name.split("::")[1], "holds": True})
    v = res.get("auto::Twin")
    R.check(v is not None and v[1] == "ok", "auto::Twin", "twin", "AdtMetadata is not Send + Sync (or the twin is broken)")
    return R

"""Pack T - decision tables: the documented decision procedure of the record reader/writer, the string and reference
tables and the sequence iterator, compared path by path with what the MIR does."""
from .. import mir, guards, walk
from ..guards import norm
from ..mir import show, strip_refs

NOISE = ("Try>::branch", "from_residual")
FMT = ("format", "must_use", "Argument::new_display", "Arguments::new", "<T as ToString>::to_string", "Arguments::from_str",
       "Argument::new_debug")


def sig_calls(p):
    return [e for e in p.events if e[0] == "call" and not e[2].endswith(NOISE) and e[2] not in FMT]


def called(p, *keys):
    return [e for e in p.events if e[0] == "call" and (e[2] in keys or e[3] in keys)]


def called_exact(p, *keys):
    return [e for e in p.events if e[0] == "call" and e[2] in keys]


def self_field(t, *names):
    """t is (a ref to) self.<names...>"""
    t = strip_refs(t)
    for n in reversed(names):
        if not (isinstance(t, tuple) and t[0] == "field" and t[2] == n):
            return False
        t = strip_refs(t[1])
    return isinstance(t, tuple) and t[0] == "arg" and t[1] == 1


def is_call(t, key):
    t = strip_refs(t)
    return isinstance(t, tuple) and t[0] == "call" and t[1] == key


def _is_meta_version(t):
    """`<x>.version` where x is the AdtMetadata the function was given (a parameter, or the field it was stored in)"""
    t = strip_refs(t)
    while isinstance(t, tuple) and t[0] in ("deref", "copy", "cast") and len(t) > 1 and isinstance(t[1], tuple):
        t = strip_refs(t[1])
    if not (isinstance(t, tuple) and t[0] == "field" and t[2] == "version"):
        return False
    base = t[1]
    while isinstance(base, tuple) and base[0] in ("deref", "ref", "copy"):
        base = base[1]
    if isinstance(base, tuple) and base[0] == "arg":
        tys = base[3] if len(base) > 3 else ""
        tys = tys.get("s") if isinstance(tys, dict) else tys
        return "AdtMetadata" in str(tys)
    return isinstance(base, tuple) and base[0] == "field" and base[2] == "metadata"


def arg_named(t, name, ty=None):
    """the parameter called `name` - or, whatever it is called, the function's only parameter of type `ty`"""
    t = strip_refs(t)
    if not (isinstance(t, tuple) and t[0] == "arg"):
        return False
    if t[2] == name:
        return True
    tys = t[3] if len(t) > 3 else None
    if isinstance(tys, dict):
        tys = tys.get("s")
    return ty is not None and tys == ty


def zero_test(c):
    """(x, means_zero) when the bool term `c` tests an unsigned x against zero: x == 0, x != 0, x > 0, x <= 0, x < 1, x >= 1,
    0 < x, 0 >= x, 0 == x ..."""
    if not (isinstance(c, tuple) and c[0] == "bin" and c[1] in ("Eq", "Ne", "Lt", "Le", "Gt", "Ge")):
        return None
    op, l, r = c[1], c[2], c[3]
    lr, rr = guards.rng(l), guards.rng(r)
    if rr == (0, 0) and op in ("Eq", "Ne", "Gt", "Le"):
        return l, op in ("Eq", "Le")
    if rr == (1, 1) and op in ("Lt", "Ge"):
        return l, op == "Lt"
    if lr == (0, 0) and op in ("Eq", "Ne", "Lt", "Ge"):
        return r, op in ("Eq", "Ge")
    if lr == (1, 1) and op in ("Gt", "Le"):
        return r, op == "Gt"
    return None


def atom_zero(a, what):
    """True / False when the path atom `a` decides whether an integer whose text mentions `what` is zero (comparison with
    0 / 1 in any orientation, or a `match` on the integer itself); None when the atom says nothing about it"""
    c, v = a[1], a[2]
    zt = zero_test(c)
    if zt is not None:
        if what not in show(zt[0]):
            return None
        tv = guards.truth(v)
        return tv if zt[1] else not tv
    if isinstance(c, tuple) and c[0] not in ("bin", "discr", "un") and what in show(c):
        r = guards.rng(c)
        if c[0] == "call" and not (r or c[0] == "ok"):
            return None
        if isinstance(v, int) and not isinstance(v, bool):
            return v == 0 if (r is None or r != (0, 1)) else None
        if isinstance(v, tuple) and v[0] == "not" and 0 in v[1]:
            return False
    return None


EMPTY_CTORS = ("new", "default", "with_capacity", "with_hasher", "with_capacity_and_hasher", "empty")


def _only_empty_ctors(p, core, depth=0):
    """every call on the path is an empty-collection / default constructor (local ones are inspected recursively): nothing is
    read and no table is filled"""
    for c in p.calls():
        last = c[2].split("::")[-1]
        if last == "from_elem" and not any(y[0] == "call" and not guards._pure(y[1]) for x in c[5] for y in mir.walk_expr(x)):
            continue          # vec![const; n] with n computed from the arguments alone: nothing from the input
        if guards._pure(c[2]):
            continue
        if last not in EMPTY_CTORS:
            return False
        cb = core.bodies.get(c[4])
        if cb is not None and depth < 3:
            for q in walk.walk(cb, core, max_paths=200):
                if q.outcome[0] == "return" and not _only_empty_ctors(q, core, depth + 1):
                    return False
    return True


VEC_MAKERS = ("Vec<T>::new", "Vec<T>::with_capacity", "Iterator::collect", "from_elem", "[T]::into_vec", "<Vec<T> as Default>::default",
              "box_assume_init_into_vec_unsafe")


def _vec_terms(t):
    return [x for x in mir.walk_expr(t) if x[0] == "call" and (x[1] in VEC_MAKERS or x[1].endswith("::from_elem"))]


def _empty_vec(x):
    """the vector-producing call `x` certainly yields an empty vector"""
    if x[1] in ("Vec<T>::new", "<Vec<T> as Default>::default", "Vec<T>::with_capacity"):
        return True
    if x[1].endswith("from_elem") and len(x[3]) >= 2:
        return guards.rng(x[3][1]) == (0, 0)
    if x[1] == "Iterator::collect" and x[3]:
        for y in mir.walk_expr(x[3][0]):
            if y[0] == "call" and y[1] == "Iterator::take" and len(y[3]) == 2 and guards.rng(y[3][1]) == (0, 0):
                return True
        n = guards._iter_count(x[3][0])
        return n == 0
    return False


def _has_empty_vec(t):
    return any(_empty_vec(x) for x in _vec_terms(t))


def _has_filled_vec(t):
    return any(not _empty_vec(x) for x in _vec_terms(t))


def _minus_one(t, what):
    """`t` is x - 1 for an x whose text mentions `what`: x - 1, x.checked_sub(1) (also its `?` payload), wrapping/saturating"""
    t = strip_refs(t)
    while isinstance(t, tuple) and t[0] in ("ok", "try"):
        t = strip_refs(t[1])
    if not isinstance(t, tuple):
        return False
    if t[0] == "bin" and t[1] in ("Sub", "SubWithOverflow"):
        return what in show(t[2]) and guards.rng(t[3]) == (1, 1)
    if t[0] == "call" and t[1].split("::")[-1] in ("checked_sub", "wrapping_sub", "saturating_sub") and len(t[3]) == 2:
        return what in show(t[3][0]) and guards.rng(t[3][1]) == (1, 1)
    return False


def _negation_of(t, what):
    """`t` contains the arithmetic negation of an x whose text mentions `what`: -x, x.wrapping_neg(), 0 - x, 0.wrapping_sub(x)"""
    for x in mir.walk_expr(t):
        if x[0] == "un" and x[1] == "Neg" and what in show(x[2]):
            return True
        if x[0] == "call" and x[1].split("::")[-1] in ("wrapping_neg", "checked_neg") and x[3] and what in show(x[3][0]):
            return True
        if x[0] == "call" and x[1].split("::")[-1] in ("wrapping_sub", "checked_sub") and len(x[3]) == 2 and \
                guards.rng(x[3][0]) == (0, 0) and what in show(x[3][1]):
            return True
        if x[0] == "bin" and x[1] in ("Sub", "SubWithOverflow") and guards.rng(x[2]) == (0, 0) and what in show(x[3]):
            return True
    return False


def peel_opt(t, variant_only=False):
    """strip value-preserving Option adaptors: x.copied() / x.cloned() / x.as_ref() / x.as_deref(); with `variant_only` also
    the adaptors that keep Some/None but change the payload (x.map(f), x.inspect(f))"""
    names = ("copied", "cloned", "as_ref", "as_deref", "as_mut") + (("map", "inspect") if variant_only else ())
    t = strip_refs(t)
    while isinstance(t, tuple) and t[0] == "call" and t[1].split("::")[-1] in names and t[1].startswith("Option<") and t[3]:
        t = strip_refs(t[3][0])
    return t


def valuation(p, matchers):
    """pred name -> bool for the atoms of a path; ('unresolved', term) entries for bool atoms no matcher recognises"""
    val = {}
    unresolved = []
    for a in p.atoms():
        cond, v = a[1], a[2]
        if cond[0] == "discr":
            inner = strip_refs(cond[1])
            if inner[0] == "try":
                continue
            name = None
            for m in matchers:
                name = m(cond)
                if name:
                    break
            if name:
                val[name] = walk.atom_variant(a)
            continue
        tv = guards.truth(v)
        e = cond
        while isinstance(e, tuple) and e[0] == "un" and e[1] == "Not":
            e = e[2]
            tv = (not tv) if tv is not None else None
        name = None
        for m in matchers:
            name = m(e)
            if name:
                break
        if name is None:
            if e[0] == "phi" or (e[0] == "const"):
                continue        # drop flags
            unresolved.append(e)
            continue
        if isinstance(name, tuple):          # (name, flip)
            name, flip = name
            tv = (not tv) if flip else tv
        val[name] = tv
    return val, unresolved


def outcome_of(p):
    o = p.outcome
    if o[0] != "return":
        return (o[0], None)
    t = o[1]
    if t[0] == "errprop":
        return ("errprop", strip_refs(t[1]))
    ev = walk.err_variant(t)
    if ev:
        return ("err", ev)
    if walk.is_err_term(t) is True:
        return ("err", "?")
    return ("ok", t)


# ================================================================================================ T1 / T2
def _peel_default0(t):
    """x.unwrap_or(0) / *x.unwrap_or(&0) / x.unwrap_or_default() / x.copied()...  ->  x  (None if no zero default)"""
    t = strip_refs(t)
    if not isinstance(t, tuple) or t[0] != "call":
        return None
    k = t[1]
    if k in ("Option<T>::unwrap_or", "Option<T>::map_or") and len(t[3]) >= 2:
        d = strip_refs(t[3][1]) if k.endswith("unwrap_or") else strip_refs(t[3][1])
        x = t[3][0]
        if k.endswith("map_or"):
            d, x = strip_refs(t[3][1]), t[3][0]
        if guards.rng(d) != (0, 0):
            return None
    elif k == "Option<T>::unwrap_or_default":
        x = t[3][0]
    else:
        return None
    x = strip_refs(x)
    while isinstance(x, tuple) and x[0] == "call" and x[1] in ("Option<&T>::copied", "Option<&T>::cloned", "Option<T>::copied",
                                                              "Option<T>::cloned", "Option<T>::as_deref"):
        x = strip_refs(x[3][0])
    return x


def _lookup_in(t, key_arg, *field_chain):
    """t is map.get(key) on self.<field_chain> with the key being parameter number `key_arg`"""
    t = strip_refs(t)
    if not (isinstance(t, tuple) and t[0] == "call" and t[1].split("::")[-1] in ("get", "get_key_value") and len(t[3]) == 2):
        return False
    k = strip_refs(t[3][1])
    return self_field(t[3][0], *field_chain) and k[0] == "arg" and k[1] == key_arg


def _lookup_payload(t, *chain):
    """t is the value found by `match self.<chain>.get(field_name) { Some(v) => *v, .. }`: the Some payload of the lookup"""
    t = strip_refs(t)
    while isinstance(t, tuple) and t[0] == "call" and t[1].split("::")[-1] in ("copied", "cloned", "clone") and t[3]:
        t = strip_refs(t[3][0])
    if isinstance(t, tuple) and t[0] == "field" and isinstance(t[1], tuple) and t[1][0] == "variant" and t[1][2] == "Some":
        x = strip_refs(t[1][1])
        while isinstance(x, tuple) and x[0] == "call" and x[1].split("::")[-1] in ("copied", "cloned") and x[3]:
            x = strip_refs(x[3][0])
        return _lookup_in(x, 2, *chain)
    return False


def _chunk_term(t):
    """the generation of the field: metadata.field_generations[field_name], defaulting to 0 (or the value found by an
    explicit match on the lookup; the not-found arm is the constant 0 and is handled through the `has_generation` decision)"""
    x = _peel_default0(t)
    return (x is not None and _lookup_in(x, 2, "metadata", "field_generations")) or \
        _lookup_payload(t, "metadata", "field_generations")


def _optsince_term(t):
    x = _peel_default0(t)
    return (x is not None and _lookup_in(x, 2, "metadata", "made_optional_at")) or \
        _lookup_payload(t, "metadata", "made_optional_at")


def m_generation(c):
    """`match self.metadata.field_generations.get(field_name)`: Some -> the field's chunk, None -> chunk 0"""
    if c[0] == "discr":
        x = strip_refs(c[1])
        while isinstance(x, tuple) and x[0] == "call" and x[1].split("::")[-1] in ("copied", "cloned") and x[3]:
            x = strip_refs(x[3][0])
        if _lookup_in(x, 2, "metadata", "field_generations"):
            return "has_generation"


def m_optsince(c):
    if c[0] == "discr":
        x = strip_refs(c[1])
        while isinstance(x, tuple) and x[0] == "call" and x[1].split("::")[-1] in ("copied", "cloned") and x[3]:
            x = strip_refs(x[3][0])
        if _lookup_in(x, 2, "metadata", "made_optional_at"):
            return "has_optsince"


def _member(e, key_pred, *field_chain):
    """membership test of a key in self.<field_chain>: contains / contains_key / get(..).is_some(); returns +1, -1 (negated) or 0"""
    e = strip_refs(e)
    if not isinstance(e, tuple) or e[0] != "call":
        return 0
    last = e[1].split("::")[-1]
    if last in ("contains", "contains_key") and len(e[3]) == 2 and self_field(e[3][0], *field_chain) and key_pred(e[3][1]):
        return 1
    if last in ("is_some", "is_none") and e[3]:
        g = strip_refs(e[3][0])
        if isinstance(g, tuple) and g[0] == "call" and g[1].split("::")[-1] == "get" and len(g[3]) == 2 and \
                self_field(g[3][0], *field_chain) and key_pred(g[3][1]):
            return 1 if last == "is_some" else -1
    return 0


def _is_arg(n):
    return lambda t: strip_refs(t)[0] == "arg" and strip_refs(t)[1] == n


def m_removed(e):
    m = _member(e, _is_arg(2), "removed_fields")
    if m:
        return "removed" if m > 0 else ("removed", True)


def m_missing(e):
    if e[0] == "bin" and e[1] in ("Lt", "Gt", "Le", "Ge"):
        l, r = e[2], e[3]
        if e[1] == "Lt" and self_field(l, "stored_version") and _chunk_term(r):
            return "missing"
        if e[1] == "Gt" and self_field(r, "stored_version") and _chunk_term(l):
            return "missing"
        if e[1] == "Ge" and self_field(l, "stored_version") and _chunk_term(r):
            return ("missing", True)
        if e[1] == "Le" and self_field(r, "stored_version") and _chunk_term(l):
            return ("missing", True)


def m_before_optional(e):
    if e[0] == "bin" and e[1] in ("Lt", "Gt", "Le", "Ge"):
        l, r = e[2], e[3]
        if e[1] == "Lt" and self_field(l, "stored_version") and _optsince_term(r):
            return "before_optional"
        if e[1] == "Gt" and self_field(r, "stored_version") and _optsince_term(l):
            return "before_optional"
        if e[1] == "Ge" and self_field(l, "stored_version") and _optsince_term(r):
            return ("before_optional", True)
        if e[1] == "Le" and self_field(r, "stored_version") and _optsince_term(l):
            return ("before_optional", True)


def m_has_inputs(e):
    if is_call(e, "Vec<T, A>::is_empty") and self_field(e[3][0], "inputs"):
        return ("has_inputs", True)
    if e[0] == "bin" and e[1] in ("Eq", "Ne", "Gt") and guards.rng(e[3]) == (0, 0):
        l = strip_refs(e[2])
        if (l[0] == "len" and self_field(l[1], "inputs")) or (l[0] == "call" and l[1].endswith("::len") and self_field(l[3][0], "inputs")):
            return ("has_inputs", True) if e[1] == "Eq" else "has_inputs"


def m_made_optional(e):
    m = _member(e, lambda k: is_call(k, "AdtDeserializer::record_field_index"), "made_optional_at")
    if m:
        return "made_optional" if m > 0 else ("made_optional", True)


def m_is_defined(e):
    e = strip_refs(e)
    if e[0] == "ok" and is_call(e[1], "<bool as BinaryDeserializer>::deserialize"):
        return "is_defined"


def m_default(c):
    if c[0] == "discr" and strip_refs(c[1])[0] == "arg" and strip_refs(c[1])[1] == 3:
        return "default"


def _rfi_ok(R, key, p, val=None):
    """record_field_index(self, chunk) exactly once"""
    cs = called(p, "AdtDeserializer::record_field_index")
    okk = len(cs) == 1 and (_chunk_term(cs[0][5][1]) or
                            ((val or {}).get("has_generation") == "None" and guards.rng(cs[0][5][1]) == (0, 0)))
    R.check(okk, key, "record_field_index", "the per-chunk field position is not advanced exactly once with the field's own "
            "chunk on this path (calls: %s)" % [show(c[5][1]) for c in cs])
    return okk


def read_field(an, rep):
    R = rep.rule("T1", "AdtDeserializer::read_field decision table: removed -> FieldRemovedInSerializedVersion; "
                       "stored_version < chunk: default or FieldWithoutDefaultValueIsMissing; header says made-optional at "
                       "this position: read flag, then value or NonOptionalFieldSerializedAsNone; else read the value; "
                       "position counter advanced once per non-removed field")
    core = an.core()
    b = core.find("AdtDeserializer::read_field")
    if not b:
        R.anchor_missing("AdtDeserializer::read_field")
        return R
    paths = walk.walk(b, core)
    rows = {k: 0 for k in ("removed", "missing+default", "missing-nodefault", "optional-defined", "optional-none", "plain")}
    ms = (m_removed, m_missing, m_has_inputs, m_made_optional, m_is_defined, m_default, m_generation)
    for p in paths:
        val, unres = valuation(p, ms)
        for u in unres:
            R.fail(b.key, "unresolved atom", "UNRESOLVED atom %s: the decision is not in the documented table (fail closed)"
                   % show(u), mir.loc(b, 0))
        kind, what = outcome_of(p)
        reads = called_exact(p, "BinaryDeserializer::deserialize")
        flag = called_exact(p, "<bool as BinaryDeserializer>::deserialize")
        desc = {k: v for k, v in val.items()}
        if val.get("removed") is True:
            rows["removed"] += 1
            R.check(kind == "err" and what == "FieldRemovedInSerializedVersion" and not reads and not flag, b.key, "row removed",
                    "removed field: outcome %s %s, reads %d" % (kind, what, len(reads)), None, sample={"row": "removed", "when": desc})
            continue
        if val.get("removed") is not False:
            R.fail(b.key, "row ?", "path does not test the removed-fields set first: %s" % desc)
            continue
        _rfi_ok(R, b.key, p, val)
        if val.get("has_generation") == "None" and "missing" not in val:
            val["missing"] = False           # chunk 0: `stored_version < 0` cannot hold
        if val.get("missing") is True:
            if val.get("default") == "Some":
                rows["missing+default"] += 1
                okk = kind == "ok" and not reads and not flag
                if okk:
                    v = strip_refs(what)
                    okk = v[0] == "agg" and v[3] == "Ok" and any(x[0] == "arg" and x[1] == 3 for x in mir.walk_expr(v[4][0]))
                R.check(okk, b.key, "row missing+default", "missing chunk with default: outcome %s %s" % (kind, show(what) if kind == "ok" else what),
                        None, sample={"row": "missing+default", "when": desc})
            elif val.get("default") == "None":
                rows["missing-nodefault"] += 1
                R.check(kind == "err" and what == "FieldWithoutDefaultValueIsMissing" and not reads and not flag, b.key,
                        "row missing-nodefault", "missing chunk without default: outcome %s %s" % (kind, what))
            else:
                R.fail(b.key, "row missing", "missing-chunk path does not consult the default: %s" % desc)
            continue
        if val.get("missing") is not False:
            R.fail(b.key, "row ?", "path reads the field without testing stored_version < chunk: %s" % desc)
            continue
        if kind == "errprop":
            continue
        if val.get("made_optional") is True:
            if val.get("is_defined") is True:
                rows["optional-defined"] += 1
                R.check(kind == "ok" and len(flag) == 1 and len(reads) == 1 and is_call(what, "BinaryDeserializer::deserialize"),
                        b.key, "row optional-defined", "made-optional field present: outcome %s" % kind, None,
                        sample={"row": "optional-defined", "when": desc})
            elif val.get("is_defined") is False:
                rows["optional-none"] += 1
                R.check(kind == "err" and what == "NonOptionalFieldSerializedAsNone" and not reads, b.key, "row optional-none",
                        "made-optional field absent: outcome %s %s" % (kind, what))
            else:
                R.fail(b.key, "row optional", "made-optional path does not branch on the presence flag: %s" % desc)
        elif val.get("made_optional") is False:
            rows["plain"] += 1
            R.check(kind == "ok" and len(reads) == 1 and not flag and is_call(what, "BinaryDeserializer::deserialize"),
                    b.key, "row plain", "plain field: outcome %s, reads %d, flags %d" % (kind, len(reads), len(flag)), None,
                    sample={"row": "plain", "when": desc})
        else:
            R.fail(b.key, "row ?", "path reads the field without consulting the header's made-optional table: %s" % desc)
    for row, n in rows.items():
        R.check(n > 0, b.key, "coverage " + row, "documented row `%s` is implemented by no path" % row)
    return R


def read_optional_field(an, rep):
    R = rep.rule("T2", "AdtDeserializer::read_optional_field decision table: removed -> None; stored_version < chunk: default "
                       "or error; stored_version < made-optional-since: wrap Some(T); else read Option<T>; position counter "
                       "advanced once with the field's chunk")
    core = an.core()
    b = core.find("AdtDeserializer::read_optional_field")
    if not b:
        R.anchor_missing("AdtDeserializer::read_optional_field")
        return R
    paths = walk.walk(b, core)
    rows = {k: 0 for k in ("removed", "missing+default", "missing-nodefault", "wrap", "option")}
    ms = (m_removed, m_missing, m_before_optional, m_has_inputs, m_default, m_generation, m_optsince)
    for p in paths:
        val, unres = valuation(p, ms)
        for u in unres:
            R.fail(b.key, "unresolved atom", "UNRESOLVED atom %s (fail closed)" % show(u), mir.loc(b, 0))
        kind, what = outcome_of(p)
        reads_t = called_exact(p, "BinaryDeserializer::deserialize")
        reads_opt = called_exact(p, "<Option<T> as BinaryDeserializer>::deserialize")
        desc = dict(val)
        if val.get("removed") is True:
            rows["removed"] += 1
            okk = kind == "ok" and not reads_t and not reads_opt
            if okk:
                v = strip_refs(what)
                okk = v[0] == "agg" and v[3] == "Ok" and strip_refs(v[4][0])[0] == "agg" and strip_refs(v[4][0])[3] == "None"
            R.check(okk, b.key, "row removed", "removed optional field must read as None (outcome %s)" % kind, None,
                    sample={"row": "removed", "when": desc})
            continue
        if val.get("removed") is not False:
            R.fail(b.key, "row ?", "path does not test the removed-fields set first: %s" % desc)
            continue
        _rfi_ok(R, b.key, p, val)
        if val.get("has_generation") == "None" and "missing" not in val:
            val["missing"] = False           # chunk 0: `stored_version < 0` cannot hold
        if val.get("has_optsince") == "None" and "before_optional" not in val:
            val["before_optional"] = False   # never made optional: `stored_version < 0` cannot hold
        if val.get("missing") is True:
            if val.get("default") == "Some":
                rows["missing+default"] += 1
                R.check(kind == "ok" and not reads_t and not reads_opt and any(x[0] == "arg" and x[1] == 3 for x in mir.walk_expr(what)), b.key,
                        "row missing+default", "outcome %s" % kind)
            elif val.get("default") == "None":
                rows["missing-nodefault"] += 1
                R.check(kind == "err" and not reads_t and not reads_opt, b.key, "row missing-nodefault", "outcome %s %s" % (kind, what))
            else:
                R.fail(b.key, "row missing", "missing-chunk path does not consult the default: %s" % desc)
            continue
        if val.get("missing") is not False:
            R.fail(b.key, "row ?", "path reads the field without testing stored_version < chunk: %s" % desc)
            continue
        if kind == "errprop":
            continue
        if val.get("before_optional") is True:
            rows["wrap"] += 1
            okk = kind == "ok" and len(reads_t) == 1 and not reads_opt
            if okk:
                v = strip_refs(what)
                inner = strip_refs(v[4][0]) if v[0] == "agg" and v[3] == "Ok" else None
                okk = inner is not None and inner[0] == "agg" and inner[3] == "Some"
            R.check(okk, b.key, "row wrap", "data older than the made-optional step must be wrapped in Some (outcome %s)" % kind,
                    None, sample={"row": "wrap", "when": desc})
        elif val.get("before_optional") is False:
            rows["option"] += 1
            R.check(kind == "ok" and len(reads_opt) == 1 and not reads_t and
                    is_call(what, "<Option<T> as BinaryDeserializer>::deserialize"), b.key, "row option",
                    "current data must be read as Option<T> (outcome %s)" % kind, None, sample={"row": "option", "when": desc})
        else:
            R.fail(b.key, "row ?", "path reads the field without comparing stored_version with the made-optional step: %s" % desc)
    for row, n in rows.items():
        R.check(n > 0, b.key, "coverage " + row, "documented row `%s` is implemented by no path" % row)
    return R


# ================================================================================================ T3
def constructors(an, rep):
    R = rep.rule("T3", "read_or_get_constructor_idx reads the index once as VarU32 and caches it; read_constructor runs the "
                       "case iff the cached index equals case_idx, returning Some(result), else None; write_constructor "
                       "writes VarU32(idx) then the case body")
    core = an.core()
    b = core.find("AdtDeserializer::read_or_get_constructor_idx")
    if not b:
        R.anchor_missing("AdtDeserializer::read_or_get_constructor_idx")
    else:
        ps = walk.walk(b, core)
        cached = fresh = 0
        for p in ps:
            kind, what = outcome_of(p)
            v = None
            for a in p.atoms():
                if a[1][0] == "discr" and self_field(a[1][1], "read_constructor_idx"):
                    v = walk.atom_variant(a)
            reads = called(p, "BinaryInput::read_var_u32")
            if v == "Some":
                cached += 1
                ret = strip_refs(what) if kind == "ok" else ("unk",)
                rv = strip_refs(ret[4][0]) if ret[0] == "agg" and ret[3] == "Ok" and ret[4] else ("unk",)
                plain = rv[0] == "field" and rv[1][0] == "variant" and "read_constructor_idx" in show(rv)
                R.check(kind == "ok" and not reads and plain, b.key, "cached",
                        "cached index is not returned as is (returned %s)" % show(what))
            elif v == "None" and kind == "ok":
                fresh += 1
                st = [s for s in p.stores() if "read_constructor_idx" in show(s[1])]
                okk = len(reads) == 1 and len(st) == 1
                if okk:
                    # the cached value and the returned value are the value read, unchanged (no narrowing / arithmetic)
                    cterm = strip_refs(st[0][2])
                    inner = strip_refs(cterm[4][0]) if cterm[0] == "agg" and cterm[3] == "Some" and cterm[4] else None
                    ret = strip_refs(what)
                    rv = strip_refs(ret[4][0]) if ret[0] == "agg" and ret[3] == "Ok" and ret[4] else None
                    def is_read(t):
                        return t is not None and t[0] == "ok" and is_call(t[1], "BinaryInput::read_var_u32")
                    okk = is_read(inner) and is_read(rv)
                R.check(okk, b.key, "fresh", "index is not read once as VarU32 and cached / returned unchanged (stored: %s, "
                        "returned: %s)" % ([show(x[2]) for x in st], show(what)), None,
                        sample={"fn": b.key, "reads": "read_var_u32 once, cached"})
        R.check(cached > 0 and fresh > 0, b.key, "coverage", "cached=%d fresh=%d" % (cached, fresh))
    b = core.find("AdtDeserializer::read_constructor")
    if not b:
        R.anchor_missing("AdtDeserializer::read_constructor")
    else:
        ps = walk.walk(b, core)
        hit = miss = 0
        for p in ps:
            kind, what = outcome_of(p)
            eq = None
            for a in p.atoms():
                c = a[1]
                if c[0] == "bin" and c[1] in ("Eq", "Ne"):
                    sides = [show(c[2]), show(c[3])]
                    if any("read_or_get_constructor_idx" in s for s in sides) and any("case_idx" in s for s in sides):
                        tv = guards.truth(a[2])
                        eq = tv if c[1] == "Eq" else (not tv)
            runs = called(p, "FnOnce::call_once")
            if kind == "errprop":
                continue
            if eq is True:
                hit += 1
                v = strip_refs(what) if kind == "ok" else None
                okk = kind == "ok" and len(runs) == 1 and v[0] == "agg" and v[3] == "Ok" and strip_refs(v[4][0])[0] == "agg" \
                    and strip_refs(v[4][0])[3] == "Some"
                R.check(okk, b.key, "match", "matching index must run the case once and return Some(result)", None,
                        sample={"fn": b.key, "idx == case_idx": "run case, Some"})
            elif eq is False:
                miss += 1
                v = strip_refs(what) if kind == "ok" else None
                okk = kind == "ok" and not runs and v[0] == "agg" and v[3] == "Ok" and strip_refs(v[4][0])[3] == "None"
                R.check(okk, b.key, "mismatch", "non-matching index must not run the case and return None")
            else:
                R.fail(b.key, "row ?", "path does not compare the stored index with case_idx")
        R.check(hit > 0 and miss > 0, b.key, "coverage", "match=%d mismatch=%d" % (hit, miss))
    b = core.find("AdtSerializer<Output>::write_constructor")
    if not b:
        R.anchor_missing("AdtSerializer<Output>::write_constructor")
    else:
        ps = [p for p in walk.walk(b, core) if p.outcome[0] == "return"]
        for p in ps:
            cs = sig_calls(p)
            ks = [c[3] for c in cs]
            okk = ks[:2] == ["BinaryOutput::write_var_u32", "FnOnce::call_once"] and len(cs) == 2 and \
                arg_named(cs[0][5][1], "constructor_idx", "u32")
            R.check(okk, b.key, "layout", "constructor is not written as VarU32(constructor_idx) followed by the case body: %s" % ks,
                    None, sample={"fn": b.key, "events": ks})
    return R


# ================================================================================================ T5 / T14
def header_writer(an, rep):
    R = rep.rule("T5", "write_evolution_header emits one step per evolution step in order: InitialVersion/FieldAdded -> chunk "
                       "size of buffer v (checked conversion); FieldMadeOptional -> position of the written field, else "
                       "FieldRemoved when the name is in removed_fields, else UnknownFieldReferenceInEvolutionStep; "
                       "FieldRemoved/FieldMadeTransient -> FieldRemoved")
    core = an.core()
    b = core.find("AdtSerializer<Output>::write_evolution_header")
    if not b:
        R.anchor_missing(b)
        return R
    ps = walk.walk(b, core)
    seen = {}
    for p in ps:
        variant = None
        has_pos = in_removed = None
        for a in p.atoms():
            c = a[1]
            if c[0] == "discr":
                names = [n for _, n in c[2]]
                if "FieldMadeTransient" in names:
                    variant = walk.atom_variant(a)
                elif peel_opt(c[1])[0] == "call" and peel_opt(c[1])[1].split("::")[-1] in ("get", "get_key_value") and \
                        self_field(peel_opt(c[1])[3][0], "field_indices"):
                    has_pos = walk.atom_variant(a) == "Some"
            else:
                e = c
                tv = guards.truth(a[2])
                while isinstance(e, tuple) and e[0] == "un" and e[1] == "Not":
                    e = e[2]
                    tv = (not tv) if tv is not None else None
                if isinstance(e, tuple) and e[0] == "call" and e[1].split("::")[-1] in ("contains", "contains_key") and \
                        "removed_fields" in show(e[3][0]):
                    in_removed = tv
                elif isinstance(e, tuple) and e[0] == "call" and e[1].split("::")[-1] in ("contains_key",) and \
                        self_field(e[3][0], "field_indices"):
                    has_pos = tv
        if variant is None:
            continue
        kind, what = outcome_of(p)
        sers = called(p, "<SerializedEvolutionStep as BinarySerializer>::serialize")
        step = strip_refs(sers[0][5][0]) if sers else None
        # the step passed to serialize: walk back to the aggregate
        stepv = None
        if step is not None:
            for x in mir.walk_expr(step):
                if x[0] == "agg" and x[2] and x[2].endswith("SerializedEvolutionStep"):
                    stepv = x
                    break
        sv = stepv[3] if stepv else None
        row = variant
        if variant == "FieldMadeOptional":
            row += "/pos" if has_pos else ("/removed" if in_removed else "/unknown")
        if kind == "errprop":
            continue
        seen[row] = seen.get(row, 0) + 1
        if variant in ("InitialVersion", "FieldAdded"):
            sz = stepv[4][0] if stepv else ("unk",)
            checked = any(x[0] == "call" and x[1].endswith(("::try_into", "::try_from")) for x in mir.walk_expr(sz))
            from_buf = any(x[0] == "field" and x[2] == "buffers" for x in mir.walk_expr(sz)) and \
                any(x[0] == "len" or (x[0] == "call" and x[1].endswith("::len")) for x in mir.walk_expr(sz))
            okk = sv == "FieldAddedToNewChunk" and checked and from_buf
            R.check(okk, b.key, "row " + row, "step for %s must be FieldAddedToNewChunk{size: len(buffers[v]).try_into()?}, "
                    "found %s" % (variant, show(stepv) if stepv else None), None, sample={"row": row, "step": sv})
        elif row == "FieldMadeOptional/pos":
            R.check(sv == "FieldMadeOptional" and "field_indices" in show(stepv[4][0]), b.key, "row " + row,
                    "written made-optional field must emit FieldMadeOptional{position}", None, sample={"row": row, "step": sv})
        elif row == "FieldMadeOptional/removed":
            R.check(sv == "FieldRemoved", b.key, "row " + row, "made-optional field that is no longer written must fall back "
                    "to FieldRemoved", None, sample={"row": row, "step": sv})
        elif row == "FieldMadeOptional/unknown":
            R.check(kind == "err" and what == "UnknownFieldReferenceInEvolutionStep" and not sers, b.key, "row " + row,
                    "unknown field reference must be reported as UnknownFieldReferenceInEvolutionStep (outcome %s %s)" % (kind, what))
        elif variant in ("FieldRemoved", "FieldMadeTransient"):
            R.check(sv == "FieldRemoved", b.key, "row " + row, "%s must emit a FieldRemoved step" % variant, None,
                    sample={"row": row, "step": sv})
    for row in ("InitialVersion", "FieldAdded", "FieldMadeOptional/pos", "FieldMadeOptional/removed",
                "FieldMadeOptional/unknown", "FieldRemoved", "FieldMadeTransient"):
        R.check(seen.get(row, 0) > 0, b.key, "coverage " + row, "documented row `%s` is implemented by no path" % row)
    return R


def metadata_tables(an, rep):
    R = rep.rule("T14", "AdtMetadata::new derives field_generations from FieldAdded, made_optional_at from FieldMadeOptional "
                        "and removed_fields from FieldRemoved *and* FieldMadeTransient (documented aliases); version = number "
                        "of steps - 1; every match over Evolution in desert_core sends the two aliases to the same outcome")
    core = an.core()
    b = core.find("AdtMetadata::new")
    if not b:
        R.anchor_missing("AdtMetadata::new")
        return R
    ex = mir.Expr(b)
    # which closure feeds which field
    agg = None
    for bb in mir.reachable(b):
        for st in b.blocks[bb]["stmts"]:
            if st["k"] == "assign" and st["rv"]["rv"] == "agg" and st["rv"].get("adt") == "desert_core::adt::AdtMetadata":
                agg = (st["rv"], [ex.operand(f) for f in st["rv"]["fields"]])
    if not R.check(agg is not None, b.key, "aggregate", "AdtMetadata is not built here"):
        return R
    fields = dict(zip(agg[0]["fnames"], agg[1]))
    want = {"field_generations": {"FieldAdded"}, "made_optional_at": {"FieldMadeOptional"},
            "removed_fields": {"FieldRemoved", "FieldMadeTransient"}}
    got = {k: set() for k in want}
    # form (a): table = iter().filter_map(closure).collect()
    for fname in want:
        closures = [x[2] for x in mir.walk_expr(fields[fname]) if x[0] == "agg" and x[1] == "closure"]
        for cdef in closures:
            cb = core.bodies.get(cdef)
            if not cb:
                continue
            for p in walk.walk(cb, core):
                v = _evolution_variant(p)
                ret = strip_refs(p.outcome[1]) if p.outcome[0] == "return" else None
                if ret is not None and ret[0] == "agg" and ret[3] == "Some" and v:
                    got[fname].add(v)
    # form (b): one loop with a match that inserts into the tables
    paths = walk.walk(b, core, max_paths=8000)
    final = [p for p in paths if p.outcome[0] == "return"]
    site_of = {}
    for p in final:
        ret = strip_refs(p.outcome[1])
        if ret[0] == "agg" and ret[2] and ret[2].endswith("AdtMetadata"):
            for fname, term in zip(agg[0]["fnames"], ret[4]):
                t_ = strip_refs(term)
                if t_[0] == "call" and fname in want:
                    site_of[t_[4]] = fname
    for p in paths:
        v = _evolution_variant(p)
        if not v:
            continue
        for c in p.calls():
            if c[2].endswith("::insert") and c[5]:
                recv = strip_refs(c[5][0])
                if recv[0] == "call" and recv[4] in site_of:
                    got[site_of[recv[4]]].add(v)
    for fname, variants in want.items():
        R.check(got[fname] == variants, b.key, "table " + fname, "`%s` is populated from %s, documented: %s" %
                (fname, sorted(got[fname]), sorted(variants)), None, sample={"table": fname, "from": sorted(got[fname])})
    v = strip_refs(fields["version"])
    R.check(v[0] == "cast" and "Sub" in show(v) and "len" in show(v), b.key, "version", "version is not steps.len() - 1: %s" % show(v))
    # alias rule, everywhere
    n = 0
    for fb in core.bodies.values():
        groups = {}
        found = False
        for p in walk.walk(fb, core, max_paths=400) if _matches_evolution(fb) else []:
            for a in p.atoms():
                if a[1][0] == "discr" and any(nm == "FieldMadeTransient" for _, nm in a[1][2]):
                    v = walk.atom_variant(a)
                    if v in ("FieldRemoved", "FieldMadeTransient"):
                        found = True
                        sig = _path_signature(p)
                        groups.setdefault(v, set()).add(sig)
        if found:
            n += 1
            R.check(groups.get("FieldRemoved") == groups.get("FieldMadeTransient"), fb.key, "alias",
                    "FieldRemoved and FieldMadeTransient lead to different outcomes here: %s vs %s" %
                    (sorted(groups.get("FieldRemoved", [])), sorted(groups.get("FieldMadeTransient", []))),
                    mir.loc(fb, 0), sample={"fn": fb.key, "aliases agree": True})
    R.floor("functions matching on Evolution with both aliases", n, 2)
    return R


def _evolution_variant(p):
    v = None
    for a in p.atoms():
        if a[1][0] == "discr" and any(n == "FieldMadeTransient" for _, n in a[1][2]):
            nm = walk.atom_variant(a)
            if nm is not None:
                v = nm
            elif not isinstance(a[2], int):
                v = v or "other"
    return v


def _matches_evolution(b):
    for bb in mir.reachable(b):
        for st in b.blocks[bb]["stmts"]:
            if st["k"] == "assign" and st["rv"]["rv"] == "discr":
                if any(n == "FieldMadeTransient" for _, n in st["rv"].get("variants", [])):
                    return True
    return False


def _path_signature(p):
    kind, what = outcome_of(p)
    calls = tuple(c[2] for c in sig_calls(p) if not c[2].startswith(("<String as Clone>", "Formatter")))
    aggs = []
    if p.outcome[0] == "return":
        for x in mir.walk_expr(p.outcome[1]):
            if x[0] == "agg" and x[1] == "adt":
                aggs.append("%s::%s" % (mir.short(x[2]), x[3]))
    for c in sig_calls(p):
        for a in c[5]:
            for x in mir.walk_expr(a):
                if x[0] == "agg" and x[1] == "adt" and "SerializedEvolutionStep" in (x[2] or ""):
                    aggs.append("%s::%s" % (mir.short(x[2]), x[3]))
    return (kind, what if kind == "err" else None, calls, tuple(sorted(set(aggs))))


# ================================================================================================ T7 / T8
def step_codes(an, rep):
    R = rep.rule("T7", "SerializedEvolutionStep: writer and reader use the shared const items UNKNOWN=0, FIELD_MADE_OPTIONAL=-1, "
                       "FIELD_REMOVED=-2 for the same variants; chunk size is a VarI32; position via FieldPosition; name via "
                       "DeduplicatedString")
    core = an.core()
    # the three codes are fixed by the format (Scala desert): they are the oracle, whatever the private const items are called
    FORMAT_CODES = {"UNKNOWN": 0, "FIELD_MADE_OPTIONAL": -1, "FIELD_REMOVED": -2}
    consts = {c["path"].split("::")[-1]: c["val"] for c in core.items["consts"]}
    for k, v in FORMAT_CODES.items():
        if consts.get(k) is not None:
            R.check(consts[k] == str(v), "evolution consts", "value of " + k, "step code constant %s is %s, the format fixes %d" %
                    (k, consts[k], v), sample={"const": k, "value": v})
    consts = {k: str(v) for k, v in FORMAT_CODES.items()}
    w = core.find("<SerializedEvolutionStep as BinarySerializer>::serialize")
    r = core.find("<SerializedEvolutionStep as BinaryDeserializer>::deserialize")
    if not w or not r:
        R.anchor_missing("SerializedEvolutionStep codec")
        return R
    want = {"FieldAddedToNewChunk": ("size", None), "FieldMadeOptional": ("FIELD_MADE_OPTIONAL", "<FieldPosition as BinarySerializer>::serialize"),
            "FieldRemoved": ("FIELD_REMOVED", "<DeduplicatedString as BinarySerializer>::serialize"), "Unknown": ("UNKNOWN", None)}
    seen = set()
    for p in walk.walk(w, core):
        v = None
        for a in p.atoms():
            if a[1][0] == "discr" and any(n == "FieldAddedToNewChunk" for _, n in a[1][2]):
                v = walk.atom_variant(a)
        if v is None or p.outcome[0] != "return":
            continue
        seen.add(v)
        code, sub = want[v]
        ws = called(p, "BinaryOutput::write_var_i32")
        st_ = called(p, "State::store_string")
        if sub and sub.startswith("<DeduplicatedString") and len(st_) == 1:
            # DeduplicatedString protocol in place: the back reference is a second VarI32 after the name was registered
            ws = [w for w in ws if p.events.index(w) < p.events.index(st_[0])]
        okk = len(ws) == 1
        if okk:
            arg = strip_refs(ws[0][5][1])
            if code == "size":
                okk = arg[0] == "field" and arg[2] == "size"
            else:
                okk = _signed32(guards.rng(arg)) == int(consts.get(code, "x") if consts.get(code) is not None else 99)
        subs = [c[2] for c in sig_calls(p) if "BinarySerializer>::serialize" in c[2]]
        if sub and sub.startswith("<DeduplicatedString") and subs != [sub] and len(called(p, "State::store_string")) == 1:
            # the DeduplicatedString protocol written in place (shared helper taking &str): register the name, then the
            # back reference or the plain string
            subs = [sub]
        okk = okk and subs == ([sub] if sub else [])
        R.check(okk, w.key, "arm " + v, "writer arm %s does not emit VarI32(%s)%s" % (v, code, (" then " + sub) if sub else ""),
                None, sample={"writer arm": v, "code": code})
    R.check(seen == set(want), w.key, "arms", "writer arms found: %s" % sorted(seen))
    codes = {"UNKNOWN": int(consts.get("UNKNOWN", "0")), "FIELD_MADE_OPTIONAL": int(consts.get("FIELD_MADE_OPTIONAL", "-1")),
             "FIELD_REMOVED": int(consts.get("FIELD_REMOVED", "-2"))}
    got = {}
    for p in walk.walk(r, core):
        kind, what = outcome_of(p)
        if kind != "ok":
            continue
        v = strip_refs(what)
        inner = strip_refs(v[4][0]) if v[0] == "agg" and v[3] == "Ok" else None
        if inner is None or inner[0] != "agg":
            continue
        variant = inner[3]
        eq, ne = set(), set()
        for a in p.atoms():
            c = a[1]
            if c[0] == "discr" or "read_var_i32" not in show(c):
                continue
            if c[0] == "bin" and c[1] in ("Eq", "Ne"):
                k = _signed32(guards.rng(c[3]))
                if k is None:
                    continue
                tv = guards.truth(a[2])
                (eq if (tv == (c[1] == "Eq")) else ne).add(k)
            elif c[0] in ("ok", "field", "variant", "cast"):
                if isinstance(a[2], int):
                    eq.add(_signed32((a[2], a[2])))
                else:
                    ne.update(_signed32((x, x)) for x in a[2][1])
        got.setdefault(variant, []).append((eq, ne, [c[2] for c in sig_calls(p) if "BinaryDeserializer>::deserialize" in c[2]]))
    exp = {"Unknown": ("UNKNOWN", []), "FieldMadeOptional": ("FIELD_MADE_OPTIONAL", ["<FieldPosition as BinaryDeserializer>::deserialize"]),
           "FieldRemoved": ("FIELD_REMOVED", ["<DeduplicatedString as BinaryDeserializer>::deserialize"])}
    for variant, (cname, subs) in exp.items():
        g = got.get(variant, [])
        okk = bool(g) and all(e == {codes[cname]} and sb == subs for e, n, sb in g)
        R.check(okk, r.key, "arm " + variant, "reader produces %s for codes %s reading %s; documented: code %s (= %d) reading %s" %
                (variant, [sorted(e) for e, _, _ in g], [sb for _, _, sb in g], cname, codes[cname], subs), None,
                sample={"reader arm": variant, "code": codes[cname]})
    g = got.get("FieldAddedToNewChunk", [])
    okk = bool(g) and all(not e and set(codes.values()) <= n and not sb for e, n, sb in g)
    R.check(okk, r.key, "arm FieldAddedToNewChunk", "every other value must be a chunk size (found constraints %s)" %
            [(sorted(e), sorted(n)) for e, n, _ in g], None, sample={"reader arm": "FieldAddedToNewChunk", "codes excluded": sorted(codes.values())})
    return R


def _signed32(r):
    if not r or r[0] != r[1]:
        return None
    v = r[0]
    return v - (1 << 32) if v >= (1 << 31) else v


def field_position(an, rep):
    R = rep.rule("T8", "FieldPosition byte: chunk 0 <-> -(position) (two's complement), chunk > 0 <-> chunk; reader: negative "
                       "byte -> (0, |byte|), else (byte, 0)")
    core = an.core()
    b = core.find("FieldPosition::to_byte")
    if not b:
        R.anchor_missing("FieldPosition::to_byte")
    else:
        for p in walk.walk(b, core):
            if p.outcome[0] != "return":
                continue
            z = None
            for a in p.atoms():
                c = a[1]
                if c[0] != "discr" and atom_zero(a, "chunk") is not None:
                    z = atom_zero(a, "chunk")
            s_ = show(p.outcome[1])
            if z is True:
                R.check(_negation_of(p.outcome[1], "position") and b.locals[0]["ty"].get("s") == "u8", b.key, "chunk 0",
                        "chunk 0 must encode -(position): %s" % s_, None, sample={"to_byte chunk==0": s_})
            elif z is False:
                R.check(self_field(p.outcome[1], "chunk"), b.key, "chunk > 0", "chunk > 0 must encode the chunk: %s" % s_)
            else:
                R.fail(b.key, "row ?", "path does not branch on chunk == 0")
    b = core.find("<FieldPosition as BinaryDeserializer>::deserialize")
    if not b:
        R.anchor_missing("FieldPosition reader")
    else:
        rows = 0
        for p in walk.walk(b, core):
            kind, what = outcome_of(p)
            if kind != "ok":
                continue
            neg = None
            for a in p.atoms():
                c = a[1]
                if c[0] == "bin" and c[1] in ("Lt", "Ge") and guards.rng(c[3]) == (0, 0) and "read_i8" in show(c[2]):
                    tv = guards.truth(a[2])
                    neg = tv if c[1] == "Lt" else not tv
                elif c[0] == "call" and c[1] in ("i8::is_negative",) and c[3] and "read_i8" in show(c[3][0]):
                    neg = guards.truth(a[2])
            mk = [c for c in called(p, "FieldPosition::new")]
            pair = (mk[0][5][0], mk[0][5][1]) if len(mk) == 1 else None
            if pair is None:
                # struct literal instead of the constructor function: FieldPosition { chunk, position }
                w_ = strip_refs(what)
                inner = strip_refs(w_[4][0]) if w_[0] == "agg" and w_[3] == "Ok" and w_[4] else None
                if inner is not None and inner[0] == "agg" and (inner[2] or "").endswith("::FieldPosition") and len(inner[4]) == 2:
                    pair = (inner[4][0], inner[4][1])
            if pair is None or neg is None:
                R.fail(b.key, "row ?", "unexpected shape")
                continue
            rows += 1
            a0, a1 = pair
            if neg:
                R.check(guards.rng(a0) == (0, 0) and ("unsigned_abs" in show(a1) or "Neg" in show(a1) or "wrapping_neg" in show(a1))
                        and "read_i8" in show(a1), b.key, "negative byte", "negative byte must decode to (0, |byte|): (%s, %s)" %
                        (show(a0), show(a1)), None, sample={"byte<0": "(0, %s)" % show(a1)})
            else:
                R.check("read_i8" in show(a0) and guards.rng(a1) == (0, 0), b.key, "non-negative byte",
                        "non-negative byte must decode to (byte, 0): (%s, %s)" % (show(a0), show(a1)))
        R.check(rows == 2, b.key, "rows", "expected two Ok rows, found %d" % rows)
    return R


# ================================================================================================ T9 / T10 / T11
def dedup_strings(an, rep):
    R = rep.rule("T9", "DeduplicatedString: writer - already stored -> VarI32(-id), new -> exactly <String>::serialize; "
                       "reader - negative -> lookup by -value or InvalidStringId, else read bytes, UTF-8 decode, "
                       "store_string exactly once")
    core = an.core()
    w = core.find("<DeduplicatedString as BinarySerializer>::serialize")
    r = core.find("<DeduplicatedString as BinaryDeserializer>::deserialize")
    if not w or not r:
        R.anchor_missing("DeduplicatedString codec")
        return R
    rows = set()
    for p in walk.walk(w, core):
        v = None
        for a in p.atoms():
            if a[1][0] == "discr" and is_call(a[1][1], "State::store_string"):
                v = walk.atom_variant(a)
        if v is None and p.outcome[0] == "return" and p.returns_ok():
            # a fast path around the table (an "obviously cheap" case written directly): the reader files every string it
            # reads, so the ids of the two sides drift apart from here on
            R.fail(w.key, "path without the table", "a successful path does not ask the string table (store_string): what it "
                   "writes gets an id on the reader side only")
        if v is None or p.outcome[0] != "return":
            continue
        rows.add(v)
        cs = sig_calls(p)
        stores = called(p, "State::store_string")
        R.check(len(stores) == 1, w.key, "store once", "store_string is called %d times" % len(stores))
        writes = [c for c in cs if c[3].startswith("BinaryOutput::write_") or "BinarySerializer>::serialize" in c[2]]
        if v == "StringAlreadyStored":
            okk = len(writes) == 1 and writes[0][3] == "BinaryOutput::write_var_i32"
            if okk:
                arg = strip_refs(writes[0][5][1])
                okk = arg[0] == "un" and arg[1] == "Neg" and "StringAlreadyStored" in show(arg) and ".id" in show(arg)
            R.check(okk, w.key, "repeat", "a repeated string must be written as VarI32(-id) and nothing else: %s" %
                    [c[2] for c in writes], None, sample={"repeat": "write_var_i32(-id)"})
        elif v == "StringIsNew" and outcome_of(p)[0] == "errprop" and not writes:
            pass        # the length did not fit: nothing was written
        elif v == "StringIsNew":
            okk = len(writes) == 1 and writes[0][2] in ("<String as BinarySerializer>::serialize", "<str as BinarySerializer>::serialize") \
                and ("StringIsNew" in show(writes[0][5][0]) or "$self" in show(writes[0][5][0]))
            if not okk and len(writes) == 2:
                # the plain-string layout written in place (shared helper): VarI32(len of the string), its UTF-8 bytes
                a0, a1 = writes[0][5][1], writes[1][5][1]
                src = lambda t: "StringIsNew" in show(t) or "$self" in show(t)
                is_len = any((x[0] == "len") or (x[0] == "call" and (x[1] in guards.PURE_LEN or x[1].endswith("::len")))
                             for x in mir.walk_expr(a0))
                is_bytes = any(x[0] == "call" and x[1] in ("str::as_bytes", "String::as_bytes") for x in mir.walk_expr(a1))
                okk = writes[0][3] == "BinaryOutput::write_var_i32" and writes[1][3] == "BinaryOutput::write_bytes" and \
                    is_len and is_bytes and src(a0) and src(a1)
            R.check(okk, w.key, "first occurrence", "a new string must be written exactly like a plain String: %s" %
                    [c[2] for c in writes], None, sample={"first": "<String as BinarySerializer>::serialize(value)"})
    R.check(rows == {"StringAlreadyStored", "StringIsNew"}, w.key, "rows", "rows found: %s" % sorted(rows))
    seen = set()
    for p in walk.walk(r, core):
        kind, what = outcome_of(p)
        neg = None
        for a in p.atoms():
            c = a[1]
            if c[0] == "bin" and c[1] in ("Lt", "Ge") and "read_var_i32" in show(c[2]) and guards.rng(c[3]) == (0, 0):
                tv = guards.truth(a[2])
                neg = tv if c[1] == "Lt" else not tv
        if neg is None or kind == "errprop":
            continue
        stores = called(p, "State::store_string")
        lookups = called(p, "State::get_string_by_id")
        reads = called(p, "<DeserializationContext as BinaryInput>::read_bytes", "BinaryInput::read_bytes")
        if neg:
            found = None
            for a in p.atoms():
                if a[1][0] == "discr" and is_call(peel_opt(a[1][1], True), "State::get_string_by_id"):
                    found = walk.atom_variant(a)
            okk = len(lookups) == 1 and not stores and not reads
            if okk:
                okk = _negation_of(lookups[0][5][1], "read_var_i32")
            if found == "Some":
                seen.add("hit")
                R.check(okk and kind == "ok", r.key, "back-reference", "negative value must look up id = -value and return it", None,
                        sample={"negative": "get_string_by_id(-v) -> Ok"})
            elif found == "None":
                seen.add("miss")
                R.check(okk and kind == "err" and what == "InvalidStringId", r.key, "unknown id", "unknown id must be "
                        "InvalidStringId (outcome %s %s)" % (kind, what))
        else:
            if kind != "ok":
                continue
            seen.add("plain")
            utf = called(p, "String::from_utf8") or called(p, "from_utf8")
            okk = len(reads) == 1 and len(stores) == 1 and len(utf) == 1 and not lookups
            if okk:
                okk = "read_var_i32" in show(reads[0][5][1]) and p.events.index(reads[0]) < p.events.index(stores[0])
            R.check(okk, r.key, "first occurrence", "non-negative value must read that many bytes, decode UTF-8 and register the "
                    "string exactly once (reads=%d stores=%d)" % (len(reads), len(stores)), None,
                    sample={"non-negative": "read_bytes(v) -> from_utf8 -> store_string once"})
    R.check(seen == {"hit", "miss", "plain"}, r.key, "rows", "rows found: %s" % sorted(seen))
    return R


def ref_protocol(an, rep):
    R = rep.rule("T10", "store_ref_or_object: already stored -> VarU32(id), false; new -> VarU32(0), true (through the "
                        "context, so chunk buffering applies).  try_read_ref: 0 -> None; id -> lookup or InvalidRefId")
    core = an.core()
    w = core.find("SerializationContext<Output>::store_ref_or_object")
    r = core.find("DeserializationContext::try_read_ref")
    if not w or not r:
        R.anchor_missing("ref protocol")
        return R
    rows = set()
    for p in walk.walk(w, core):
        v = None
        for a in p.atoms():
            if a[1][0] == "discr" and is_call(a[1][1], "State::store_ref"):
                v = walk.atom_variant(a)
        if v is None or p.outcome[0] != "return":
            continue
        rows.add(v)
        ws = [c for c in sig_calls(p) if "write_" in c[2]]
        kind, what = outcome_of(p)
        okk = len(ws) == 1 and ws[0][3] == "BinaryOutput::write_var_u32" and arg_named(ws[0][5][0], "self")
        ret = show(what) if kind == "ok" else ""
        if v == "RefAlreadyStored":
            okk = okk and "RefAlreadyStored" in show(ws[0][5][1]) and "Ok{0}" in ret.replace("false", "0")
            R.check(okk, w.key, "known object", "a known object must be written as VarU32(id) on the context itself and return "
                    "false: %s -> %s" % ([show(a) for a in ws[0][5]] if ws else None, ret), None, sample={"known": "write_var_u32(id); false"})
        else:
            okk = okk and guards.rng(ws[0][5][1]) == (0, 0) and "Ok{1}" in ret.replace("true", "1")
            R.check(okk, w.key, "new object", "a new object must be announced with VarU32(0) and return true", None,
                    sample={"new": "write_var_u32(0); true"})
    R.check(rows == {"RefAlreadyStored", "RefIsNew"}, w.key, "rows", "rows: %s" % sorted(rows))
    seen = set()
    for p in walk.walk(r, core):
        kind, what = outcome_of(p)
        if kind == "errprop":
            continue
        zero = None
        for a in p.atoms():
            c = a[1]
            z = atom_zero(a, "read_var_u32")
            if z is not None and c[0] != "discr":
                zero = z
        reads = called(p, "BinaryInput::read_var_u32")
        lookups = called(p, "State::get_ref_by_id")
        if zero is True:
            seen.add("zero")
            v = strip_refs(what) if kind == "ok" else None
            R.check(kind == "ok" and not lookups and len(reads) == 1 and strip_refs(v[4][0])[3] == "None", r.key, "marker 0",
                    "0 must mean `new object follows` (None)", None, sample={"0": "None"})
        elif zero is False:
            found = None
            for a in p.atoms():
                if a[1][0] == "discr" and is_call(peel_opt(a[1][1], True), "State::get_ref_by_id"):
                    found = walk.atom_variant(a)
            okk = len(lookups) == 1 and "read_var_u32" in show(lookups[0][5][1])
            if found == "Some":
                seen.add("hit")
                R.check(okk and kind == "ok", r.key, "known id", "id must be looked up and returned")
            elif found == "None":
                seen.add("miss")
                R.check(okk and kind == "err" and what == "InvalidRefId", r.key, "unknown id",
                        "an id that was never introduced must be InvalidRefId (outcome %s %s)" % (kind, what), None,
                        sample={"unknown id": "Err(InvalidRefId)"})
            else:
                R.fail(r.key, "row ?", "non-zero id is not resolved through a checked lookup (outcome %s)" % kind)
    R.check(seen == {"zero", "hit", "miss"}, r.key, "rows", "rows: %s" % sorted(seen))
    return R


def _unclone(t):
    t = strip_refs(t)
    while isinstance(t, tuple) and t[0] == "call" and t[3]:
        last = t[1].split("::")[-1]
        if last in ("clone", "to_owned", "to_string", "borrow", "as_str"):
            t = strip_refs(t[3][0])
        elif last == "key" and "Entry" in t[1]:
            # entry.key() is the key the entry was opened with
            e = [x for x in mir.walk_expr(t[3][0]) if x[0] == "call" and x[1].endswith("::entry") and len(x[3]) == 2]
            if not e:
                break
            t = strip_refs(e[0][3][1])
        else:
            break
    return guards.norm(t)


def _same_entry(p, inserts, by_id):
    val = key = None
    for c in inserts:
        recv = show(c[5][0])
        if by_id in recv and "VacantEntry" not in c[2]:
            val = _unclone(c[5][-1])                      # by_id.insert(id, value)
        elif "VacantEntry" in c[2]:
            # ids.entry(key) .. vacant.insert(id): the key is the argument of entry()
            for e in p.calls():
                if e[2].endswith("::entry") and len(e[5]) == 2:
                    key = _unclone(e[5][1])
        else:
            key = _unclone(c[5][1])                       # ids.insert(key, id)
    return val is not None and key is not None and val == key


ID_TYPES = ("desert_core::StringId", "desert_core::RefId")


def _id_bumpers(core):
    """functions that step an id: every local function storing into the number of a StringId / RefId.  -> {def: ok?} where ok
    means: one path, one store, `x.0 = x.0 + 1` on the id passed by `&mut`"""
    out = {}
    for b in core.bodies.values():
        if b.test or b.kind == "Closure":
            continue
        hit = False
        for blk in b.blocks:
            for st in blk["stmts"]:
                if st["k"] != "assign" or not st["place"]["proj"]:
                    continue
                ty = b.locals[st["place"]["local"]]["ty"]
                for pr in st["place"]["proj"]:
                    if pr["p"] == "deref":
                        ty = ty.get("t", {}) if ty.get("k") in ("ref", "ptr") else {}
                    elif pr["p"] == "field":
                        if ty.get("k") == "adt" and ty.get("path") in ID_TYPES:
                            hit = True
                        ty = pr["ty"]
                    else:
                        ty = {}
        if not hit:
            continue
        ps = [p for p in walk.walk(b, core, auto_inline=False) if p.outcome[0] == "return"]
        okk = len(ps) == 1 and len(ps[0].stores()) == 1
        if okk:
            s_ = ps[0].stores()[0]
            v = s_[2]
            okk = v[0] == "bin" and v[1] == "Add" and norm(v[2]) == norm(s_[1]) and guards.rng(v[3]) == (1, 1)
            if okk:
                # if it hands an id back it must be the *stepped* id (pre-increment semantics: ids start at 1); returning
                # the value from before the step makes the first id 0, which is the `new object` / length-0 marker
                ret = strip_refs(ps[0].outcome[1])
                unit = (ret[0] == "agg" and ret[1] == "tuple" and not ret[4]) or (ret[0] == "const" and ret[1] == "()")
                if not unit:
                    inner = ret
                    while isinstance(inner, tuple) and inner[0] == "agg" and inner[1] == "adt" and inner[4] and len(inner[4]) == 1:
                        inner = strip_refs(inner[4][0])          # StringId(x) / RefId(x)
                    same = norm(ret) == norm(v) or norm(inner) == norm(v) or \
                        any(norm(x) == norm(v) for x in mir.walk_expr(ret) if isinstance(x, tuple) and x[0] == "bin")
                    if not same:
                        # `self.0 += 1; *self`: the id is re-read from its place - after the store, in program order
                        same = _reads_after_store(b)
                    okk = same
        out[b.defn] = (bool(okk), b.key)
    return out


def _reads_after_store(b):
    """straight-line body: every read of the `&mut` id argument that can reach the return value happens after the store"""
    order = []
    bb, seen = 0, set()
    while bb is not None and bb not in seen:
        seen.add(bb)
        blk = b.blocks[bb]
        for si, st in enumerate(blk["stmts"]):
            order.append((bb, si, st))
        t = blk["term"]
        bb = t.get("t") if t["k"] in ("goto", "assert", "call", "drop") else None
    store_at = None
    reads = []
    for i, (bb, si, st) in enumerate(order):
        if st["k"] != "assign":
            continue
        pl = st["place"]
        if pl["local"] == 1 and pl["proj"] and pl["proj"][0]["p"] == "deref" and any(q["p"] == "field" for q in pl["proj"]):
            store_at = i if store_at is None else store_at
            continue
        rv = st["rv"]
        srcs = [mir.op_place(rv[k]) for k in ("x", "l", "r") if k in rv] + [rv.get("place")] + \
            [mir.op_place(f) for f in rv.get("fields", [])]
        for p_ in srcs:
            if p_ and p_["local"] == 1 and p_["proj"] and p_["proj"][0]["p"] == "deref":
                # the operand of the increment itself (x.0 + 1) is the read that feeds the store, not the result
                if rv.get("rv") == "bin" or (store_at is None and any(q["p"] == "field" for q in p_["proj"]) and
                                             st["place"]["proj"] == [] and _feeds_add(order, i)):
                    continue
                reads.append(i)
    return store_at is not None and bool(reads) and all(i > store_at for i in reads)


def _feeds_add(order, i):
    """the local assigned at position i is only used as an operand of the following checked addition"""
    tgt = order[i][2]["place"]["local"]
    for _, _, st in order[i + 1:i + 4]:
        if st["k"] == "assign" and st["rv"].get("rv") == "bin":
            for k in ("l", "r"):
                p_ = mir.op_place(st["rv"].get(k, {}))
                if p_ and p_["local"] == tgt:
                    return True
    return False


def _contains(term, keys):
    return any(repr(norm(x)) in keys for x in mir.walk_expr(term))


def state_tables(an, rep):
    R = rep.rule("T11", "State::store_string / store_ref: known key -> existing id, nothing touched; new key -> the id is stepped "
                        "exactly once (by exactly 1, from the derived Default 0, so ids start at 1), the value is filed under "
                        "the new id and the new id under that very value, and the new id is returned; both sides of the wire "
                        "use this one numbering function")
    core = an.core()
    bumpers = _id_bumpers(core)
    for d, (okk, key) in sorted(bumpers.items()):
        R.check(okk, key, "increment", "a function that steps a StringId / RefId must add exactly 1 and, if it hands an id back, hand back the stepped one", None, sample={key: "+1"})
    R.floor("id stepping functions", len(bumpers), 2)
    for fn, variants in (("State::store_string", ("StringAlreadyStored", "StringIsNew")),
                         ("State::store_ref", ("RefAlreadyStored", "RefIsNew"))):
        b = core.find(fn)
        if not b:
            R.anchor_missing(fn)
            continue
        seen = set()
        for p in walk.walk(b, core):
            v = None
            for a in p.atoms():
                c = a[1]
                if c[0] == "discr" and "entry" in show(c[1]) and "$self" in show(c[1]):
                    v = walk.atom_variant(a) or v
                elif c[0] == "discr":
                    # lookup form: `if let Some(id) = self.<map>.get(&key)` .. else insert; the key derives from the argument
                    g = peel_opt(c[1], True)
                    if g[0] == "call" and g[1].endswith("::get") and len(g[3]) == 2 and "$self" in show(g[3][0]) and \
                            any(x[0] == "arg" and x[1] == 2 for x in mir.walk_expr(g[3][1])):
                        v = {"Some": "Occupied", "None": "Vacant"}.get(walk.atom_variant(a)) or v
                elif c[0] == "call" and c[1].endswith("::contains_key") and len(c[3]) == 2 and "$self" in show(c[3][0]) and \
                        any(x[0] == "arg" and x[1] == 2 for x in mir.walk_expr(c[3][1])):
                    v = "Occupied" if guards.truth(a[2]) else "Vacant"
            if v is None or p.outcome[0] != "return":
                continue
            seen.add(v)
            def is_bump(c):
                if c[4] in bumpers:
                    return True
                # a trait method called on a type parameter (generic table): every implementation steps an id
                if "::" in c[2] and not c[2].startswith("<"):
                    tr, m = c[2].rsplit("::", 1)
                    impls = [k for _, k in bumpers.values() if k.endswith(" as %s>::%s" % (tr, m))]
                    return len(impls) >= 1 and len(impls) == sum(1 for b2 in core.bodies.values()
                                                                   if b2.key.endswith(" as %s>::%s" % (tr, m)))
                return False
            bumps = [c for c in p.calls() if is_bump(c)]
            inserts = [c for c in sig_calls(p) if c[2].endswith("::insert")]
            ret = strip_refs(p.outcome[1])
            if v == "Occupied":
                R.check(not bumps and not inserts and not p.stores() and ret[0] == "agg" and ret[3] == variants[0], b.key, "occupied",
                        "a known key must return the existing id without touching the tables", None, sample={fn: "occupied -> existing id"})
                continue
            okk = len(bumps) == 1 and len(inserts) == 2 and ret[0] == "agg" and ret[3] == variants[1]
            if okk:
                i_b = p.events.index(bumps[0])
                okk = all(p.events.index(c) > i_b for c in inserts)
                # the new id: the value the stepping function returns, or the counter read after it was stepped
                ids = {repr(norm(bumps[0][7] if len(bumps[0]) > 7 and bumps[0][7] is not None else
                                 ("call", bumps[0][2], bumps[0][4], bumps[0][5], bumps[0][1], bumps[0][6])))}
                ctr = strip_refs(bumps[0][5][0])
                ids.add(repr(norm(ctr)))
                id_val = key_val = None
                for c in inserts:
                    if "VacantEntry" in c[2]:
                        okk = okk and _contains(c[5][-1], ids)
                        for e in p.calls():
                            if e[2].endswith("::entry") and len(e[5]) == 2:
                                key_val = _unclone(e[5][1])
                    elif len(c[5]) == 3 and _contains(c[5][1], ids) and not _contains(c[5][2], ids):
                        id_val = _unclone(c[5][2])                       # by-id table: insert(id, value)
                    elif len(c[5]) == 3 and _contains(c[5][2], ids):
                        key_val = _unclone(c[5][1])                      # by-key table: insert(key, id)
                    else:
                        okk = False
                okk = okk and id_val is not None and key_val is not None and id_val == key_val and _contains(ret, ids)
            R.check(okk, b.key, "vacant", "a new key must step the id exactly once, be filed under the new id, file the new id "
                    "under that very key, and return the new id", None, sample={fn: "vacant -> step id; both tables; new id"})
        R.check(seen == {"Occupied", "Vacant"}, b.key, "rows", "rows: %s" % sorted(seen))
    # who may touch the tables: the string table belongs to the DeduplicatedString codec (and to the evolution header, whose
    # field names are deduplicated strings by format), the object table to store_ref_or_object / try_read_ref.  Any other
    # codec that registers or resolves entries numbers things on one side of the wire only.
    from .. import callgraph as _cg
    from ..rules.n_totality import _owner_fn
    owner, users = _owner_fn(core, _cg.CallGraph(core))
    MAY_CALL = {
        "State::store_string": {"<DeduplicatedString as BinarySerializer>::serialize", "<DeduplicatedString as BinaryDeserializer>::deserialize",
                                "<SerializedEvolutionStep as BinarySerializer>::serialize"},
        "State::get_string_by_id": {"<DeduplicatedString as BinaryDeserializer>::deserialize"},
        "State::store_ref": {"SerializationContext<Output>::store_ref_or_object"},
        "State::get_ref_by_id": {"DeserializationContext::try_read_ref"},
    }
    found = {k: set() for k in MAY_CALL}
    for b2 in core.bodies.values():
        if b2.test:
            continue
        for bb, t_, info in mir.calls(b2):
            if info["key"] in MAY_CALL:
                root = core.bodies.get(b2.raw.get("root")) if b2.kind == "Closure" else b2
                root = root or b2
                found[info["key"]] |= (users(root) or {owner(root)})
    for k, cs in sorted(found.items()):
        R.check(cs <= MAY_CALL[k], k, "callers", "%s is used by %s; only %s may" % (k, sorted(cs - MAY_CALL[k]), sorted(MAY_CALL[k])),
                None, sample={"table function": k, "used by": sorted(cs)})
    # Default derives: ids start at 0 -> first id is 1
    for adt in core.items["adts"]:
        if adt["path"] in ID_TYPES:
            d = core.find("<%s as Default>::default" % adt["path"].split("::")[-1])
            okk = d is not None and d.span.get("exp") and "derive" in str(d.span.get("exp")).lower()
            R.check(bool(okk), adt["path"], "Default", "id type must start from the derived Default (0)", None,
                    sample={adt["path"].split("::")[-1]: "derived Default = 0"})
    return R


# ================================================================================================ T12 / T13
def sequence_reader(an, rep):
    R = rep.rule("T12", "deserialize_iterator: failed count read -> error state; -1 -> unknown-size form; negative count -> "
                        "error state; else known-size with remaining = count.  next(): known -> None at 0 else decrement and "
                        "decode T; unknown -> decode Option<T>: Some -> item, None -> end, Err -> error item (never end)")
    core = an.core()
    b = core.find("deserialize_iterator")
    if not b:
        R.anchor_missing("deserialize_iterator")
        return R
    rows = {}
    for p in walk.walk(b, core):
        if p.outcome[0] != "return":
            continue
        ret = strip_refs(p.outcome[1])
        state = ret[3] if ret[0] == "agg" else "?"
        if state not in ("KnownSize", "UnknownSize", "InputEndedUnexpectedly", "InvalidLength"):
            # the state may be a field of the iterator (struct { context, state, .. }) instead of the iterator itself
            inner = [x[3] for x in mir.walk_expr(ret) if x[0] == "agg" and x[1] == "adt" and
                     x[3] in ("KnownSize", "UnknownSize", "InputEndedUnexpectedly", "InvalidLength")]
            if len(set(inner)) == 1:
                state = inner[0]
        ok_read = None
        minus1 = None
        conv = None
        for a in p.atoms():
            c = a[1]
            if c[0] == "discr" and is_call(c[1], "BinaryInput::read_var_i32"):
                ok_read = walk.atom_variant(a) == "Ok"
            elif c[0] == "discr" and "try_from" in show(c[1]):
                conv = walk.atom_variant(a)
            elif "read_var_i32" in show(c) and c[0] == "bin" and c[1] in ("Eq", "Ne") and guards.rng(c[3]) in ((-1, -1), (0xFFFFFFFF, 0xFFFFFFFF)):
                tv = guards.truth(a[2])
                minus1 = tv if c[1] == "Eq" else (not tv)
            elif "read_var_i32" in show(c) and c[0] not in ("discr", "bin"):
                v = a[2]
                if isinstance(v, int):
                    minus1 = v in (0xFFFFFFFF, -1)
                elif v[0] == "not":
                    minus1 = False if (0xFFFFFFFF in v[1] or -1 in v[1]) else None
        key = ("read-failed" if ok_read is False else "minus1" if minus1 else "negative" if conv == "Err" else
               "count" if conv == "Ok" else "?")
        rows[key] = state
    want = {"read-failed": "InputEndedUnexpectedly", "minus1": "UnknownSize", "negative": "InvalidLength", "count": "KnownSize"}
    for k, st in want.items():
        R.check(rows.get(k) == st, b.key, "row " + k, "row `%s` yields state %s, documented: %s (rows: %s)" %
                (k, rows.get(k), st, rows), None, sample={"row": k, "state": st})
    nb = core.find("<DeserializerIterator<T> as Iterator>::next")
    if not nb:
        R.anchor_missing("DeserializerIterator::next")
        return R
    seen = set()
    for p in walk.walk(nb, core):
        if p.outcome[0] != "return":
            continue
        state = None
        zero = None
        opt = None
        for a in p.atoms():
            c = a[1]
            if c[0] == "discr" and any(n == "KnownSize" for _, n in c[2]):
                state = walk.atom_variant(a)
            elif c[0] != "discr" and atom_zero(a, "remaining") is not None:
                zero = atom_zero(a, "remaining")
            elif c[0] == "discr" and strip_refs(c[1])[0] == "try" and _minus_one(strip_refs(c[1])[1], "remaining"):
                # `remaining.checked_sub(1)?` in a function returning Option: None (residual) iff remaining == 0
                zero = {"Continue": False, "Break": True}.get(walk.atom_variant(a))
            elif c[0] == "discr" and "<Option<T> as BinaryDeserializer>::deserialize" in show(c[1]):
                nm = walk.atom_variant(a)
                if nm in ("Some", "None"):
                    opt = "Ok/" + nm
                elif nm in ("Err", "Ok/Some", "Ok/None"):
                    opt = nm
        ret = strip_refs(p.outcome[1])
        is_none = (ret[0] == "agg" and ret[3] == "None") or (ret[0] == "errprop" and _minus_one(ret[1], "remaining"))
        dec_t = called(p, "BinaryDeserializer::deserialize")
        dec_o = called(p, "<Option<T> as BinaryDeserializer>::deserialize")
        if state == "KnownSize":
            if zero is True:
                seen.add("known/end")
                R.check(is_none and not dec_t, nb.key, "known/end", "remaining == 0 must end the sequence without reading")
            elif zero is False:
                seen.add("known/item")
                st = [s for s in p.stores() if "remaining" in show(s[1])]
                okk = len(st) == 1 and _minus_one(st[0][2], "remaining") and len(dec_t) == 1 and not is_none
                R.check(okk, nb.key, "known/item", "remaining > 0 must decrement by one and decode one T", None,
                        sample={"known": "remaining -= 1; Some(T::deserialize)"})
        elif state == "UnknownSize":
            if opt == "Ok/Some":
                seen.add("unknown/item")
                R.check(len(dec_o) == 1 and not is_none and "Ok" in show(ret), nb.key, "unknown/item", "flag 1 must yield the item")
            elif opt == "Ok/None":
                seen.add("unknown/end")
                R.check(len(dec_o) == 1 and is_none, nb.key, "unknown/end", "flag 0 must end the sequence")
            elif opt == "Err":
                seen.add("unknown/err")
                R.check(len(dec_o) == 1 and not is_none and "Err" in show(ret), nb.key, "unknown/err",
                        "a failed read in the unknown-size form must be yielded as an error item, never treated as the end",
                        None, sample={"unknown": "Err(e) -> Some(Err(e))"})
        elif state in ("InputEndedUnexpectedly", "InvalidLength"):
            seen.add("error-state")
            R.check(not is_none and "Err" in show(ret), nb.key, "error state", "error state must yield an error item")
    for k in ("known/end", "known/item", "unknown/item", "unknown/end", "unknown/err", "error-state"):
        R.check(k in seen, nb.key, "coverage " + k, "documented row `%s` is implemented by no path" % k)
    return R


def sequence_writer(an, rep):
    from .g_grammar import writer_paths, split_loop
    R = rep.rule("T13", "serialize_iterator: exact size hint (min == max) -> VarI32(min via checked conversion) then the items; "
                        "otherwise VarI32(-1), (U8 1, item)*, U8 0")
    core = an.core()
    b = core.find("serialize_iterator")
    if not b:
        R.anchor_missing("serialize_iterator")
        return R
    seen = set()
    for ev, p in writer_paths(b, core):
        exact = None
        for a in p.atoms():
            c = a[1]
            s_ = show(c)
            if "size_hint" not in s_ or (c[0] == "discr" and strip_refs(c[1])[0] == "try"):
                continue
            tv = guards.truth(a[2])
            if c[0] == "bin" and c[1] in ("Eq", "Ne"):
                l, r = show(c[2]), show(c[3])
                R.check("size_hint" in l and "size_hint" in r and l != r, b.key, "guard", "the exactness guard must compare the "
                        "lower with the upper bound of size_hint(): %s %s %s" % (l, c[1], r))
                exact = tv if c[1] == "Eq" else (not tv)
            elif c[0] == "call" and c[1].endswith(("::eq", "::ne")):
                l, r = show(c[3][0]), show(c[3][1])
                both = ("size_hint" in l and "size_hint" in r and l != r and ("Some" in l) != ("Some" in r))
                R.check(both, b.key, "guard", "the exactness guard must compare upper with Some(lower): %s == %s" % (l, r))
                exact = tv if c[1].endswith("::eq") else (not tv)
            elif c[0] == "discr":
                v = walk.atom_variant(a)
                if v == "None":
                    exact = False
        pre, body, suf = split_loop(ev)

        def kinds(es):
            out = []
            for e in es:
                if e[0] == "w":
                    c_ = guards.rng(e[2])
                    out.append((e[1], c_[0] if c_ and c_[0] == c_[1] and strip_refs(e[2])[0] in ("const", "cast") else show(e[2])))
                elif e[0] == "sub":
                    out.append(("item",))
            return out
        kp, kb, ks = kinds(pre), kinds(body) if body is not None else None, kinds(suf)
        if exact is True:
            seen.add("known")
            okk = len(kp) == 1 and kp[0][0] == "var_i32" and isinstance(kp[0][1], str) and "size_hint" in kp[0][1] and \
                ("try_into" in kp[0][1] or "try_from" in kp[0][1])
            if kb is not None:
                okk = okk and kb == [("item",)] and not ks
            else:
                okk = okk and not ks
            R.check(okk, b.key, "known form", "exact size hint must write VarI32(count) then only items: %s (%s)* %s" % (kp, kb, ks),
                    None, sample={"known": "VarI32(count) item*"})
        elif exact is False:
            seen.add("unknown")
            marker = kp[:1] in ([("var_i32", -1)], [("var_i32", 0xFFFFFFFF)])
            if kb is not None:
                okk = marker and len(kp) == 1 and kb == [("u8", 1), ("item",)] and \
                    (ks == [("u8", 0)] or (p.outcome[0] == "loopback" and not ks))
            else:
                okk = marker and kp[1:] == [("u8", 0)] and not ks       # the path on which the iterator is already exhausted
            R.check(okk, b.key, "unknown form", "inexact size hint must write VarI32(-1), (U8 1, item)*, U8 0: %s (%s)* %s" %
                    (kp, kb, ks), None, sample={"unknown": "VarI32(-1) (U8 1 item)* U8 0"})
    R.check(seen == {"known", "unknown"}, b.key, "coverage", "forms found: %s" % sorted(seen))
    return R


# ================================================================================================ T6
def record_writer(an, rep):
    R = rep.rule("T6", "AdtSerializer: new_v0/new write the version byte first; v0: write_field serializes directly and finish "
                       "writes nothing; v>0: write_field buffers into the chunk of the field's generation and records its "
                       "position; finish emits the header then the chunks in index order")
    core = an.core()
    for fn in ("AdtSerializer<Output>::new_v0", "AdtSerializer<Output>::new"):
        b = core.find(fn)
        if not b:
            R.anchor_missing(fn)
            continue
        for p in walk.walk(b, core):
            if p.outcome[0] != "return":
                continue
            ws = [c for c in sig_calls(p) if c[3].startswith("BinaryOutput::write_")]
            okk = len(ws) == 1 and ws[0][3] == "BinaryOutput::write_u8" and _is_meta_version(ws[0][5][1])
            R.check(okk, fn, "version byte", "constructor must write exactly the version byte: %s" % [show(c[5][1]) for c in ws],
                    None, sample={fn: "write_u8(metadata.version)"})
            ret = strip_refs(p.outcome[1])
            if fn.endswith("new_v0"):
                bufs = [f for n, f in zip(range(99), ret[4])] if ret[0] == "agg" else []
                R.check(_has_empty_vec(ret) and not _has_filled_vec(ret), fn, "no buffers", "new_v0 must start with no chunk buffers")
    # the evolution header is written by finish() (through write_evolution_header) and read by AdtDeserializer::new, nowhere
    # else: a step serialized at another moment registers its names in the string table at another position of the stream
    from .. import callgraph as _cg
    from ..rules.n_totality import _owner_fn
    _owner, _users = _owner_fn(core, _cg.CallGraph(core))
    HDR = {"<SerializedEvolutionStep as BinarySerializer>::serialize": {"AdtSerializer<Output>::write_evolution_header"},
           "<SerializedEvolutionStep as BinaryDeserializer>::deserialize": {"AdtDeserializer::new"}}
    used = {k: set() for k in HDR}
    for b2 in core.bodies.values():
        if b2.test:
            continue
        for bb, t_, info in mir.calls(b2):
            if info["key"] in HDR:
                root = core.bodies.get(b2.raw.get("root")) if b2.kind == "Closure" else b2
                root = root or b2
                used[info["key"]] |= (_users(root) or {_owner(root)})
    for k, cs in sorted(used.items()):
        R.check(bool(cs) and cs <= HDR[k], k, "callers", "%s is called from %s; the header is written only by %s" %
                (k, sorted(cs), sorted(HDR[k])), None, sample={"header codec": k, "called from": sorted(cs)})
    b = core.find("AdtSerializer<Output>::write_field")
    if b:
        rows = set()
        for p in walk.walk(b, core):
            kind, what = outcome_of(p)
            if kind != "ok":
                continue
            buffered = None
            for a in p.atoms():
                c = a[1]
                while c[0] == "un" and c[1] == "Not":
                    c = c[2]
                if is_call(c, "Vec<T, A>::is_empty") and self_field(c[3][0], "buffers"):
                    tv = guards.truth(a[2])
                    buffered = tv if a[1][0] == "un" else (not tv)
            subs = called(p, "BinarySerializer::serialize")
            rec = called(p, "AdtSerializer<Output>::record_field_index")
            push = called(p, "SerializationContext<Output>::push_buffer")
            if buffered is True:
                rows.add("buffered")
                okk = len(subs) == 1 and len(rec) == 1 and len(push) == 1
                if okk:
                    chunk = show(rec[0][5][2])
                    okk = "field_generations" in chunk and "field_generations" in show(push[0][5][1])
                    if not okk:
                        # explicit `match field_generations.get(name)`: on the not-found arm the chunk is the constant 0
                        nf = any(m_generation(a[1]) and walk.atom_variant(a) == "None" for a in p.atoms())
                        idx = [x for x in mir.walk_expr(push[0][5][1]) if x[0] == "call" and "Index" in x[1] and len(x[3]) == 2]
                        okk = nf and guards.rng(rec[0][5][2]) == (0, 0) and bool(idx) and guards.rng(idx[0][3][1]) == (0, 0)
                R.check(okk, b.key, "buffered", "an evolved record must buffer the field in the chunk of its generation and "
                        "record its position once", None, sample={"write_field": "push_buffer(buffers[gen]); serialize; pop; record"})
            elif buffered is False:
                rows.add("direct")
                R.check(len(subs) == 1 and not rec and not push, b.key, "direct", "a version-0 record must write the field directly")
        R.check(rows == {"buffered", "direct"}, b.key, "rows", "rows: %s" % sorted(rows))
    else:
        R.anchor_missing("AdtSerializer<Output>::write_field")
    b = core.find("AdtSerializer<Output>::finish")
    if b:
        rows = set()
        order_ok = False
        for p in walk.walk(b, core):
            kind, what = outcome_of(p)
            if kind == "errprop":
                continue
            hdr = called_exact(p, "AdtSerializer<Output>::write_evolution_header")
            wbytes = [c for c in p.calls() if c[3] == "BinaryOutput::write_bytes"]
            other_w = [c for c in sig_calls(p) if c[3].startswith("BinaryOutput::write_") and c[3] != "BinaryOutput::write_bytes"]
            if hdr:
                rows.add("evolved")
                R.check(not other_w and all(p.events.index(hdr[0]) < p.events.index(w) for w in wbytes), b.key, "header first",
                        "finish() must emit the header before the chunks")
                # the chunks: a loop over self.buffers in index order, one write_bytes per buffer
                looped = p.outcome[0] == "loopback" or any(e[0] == "loop" for e in p.events)
                if looped and len(wbytes) == 1:
                    srcs = [show(c[5][0]) for c in p.calls() if c[3] in ("IntoIterator::into_iter",) or c[2].endswith("::iter")]
                    adapters = [c[3] for c in p.calls() if c[3].startswith("Iterator::") and c[3] not in
                                ("Iterator::next", "Iterator::map", "Iterator::for_each", "Iterator::try_for_each", "Iterator::by_ref")]
                    if any("buffers" in s_ for s_ in srcs) and not adapters:
                        order_ok = True
            elif not wbytes and not other_w:
                rows.add("v0")
            else:
                R.fail(b.key, "finish", "finish() writes %s without the header" % [c[2] for c in wbytes + other_w])
        R.check(rows == {"evolved", "v0"}, b.key, "rows", "rows: %s" % sorted(rows), None, sample={"finish": sorted(rows)})
        R.check(order_ok, b.key, "chunks in order", "after the header the chunks must be written by iterating `buffers` in "
                "index order (one write_bytes per buffer, no reordering adapter)", None,
                sample={"finish": "header; for buffer in buffers: write_bytes"})
    b = core.find("AdtSerializer<Output>::record_field_index")
    if b:
        rows = set()
        for p in walk.walk(b, core):
            if p.outcome[0] != "return":
                continue
            v = None
            for a in p.atoms():
                if a[1][0] == "discr" and "last_index_per_chunk" in show(a[1][1]) and strip_refs(a[1][1])[0] == "call":
                    v = walk.atom_variant(a)
            ins = [c for c in sig_calls(p) if c[2].endswith("::insert")]
            pos = [c for c in called(p, "FieldPosition::new")]
            if v == "Occupied":
                v = "Some"
            elif v == "Vacant":
                v = "None"
            # the position is only ever looked up for the fields a FieldMadeOptional step names (write_evolution_header), and
            # those are the keys of metadata.made_optional_at (T14): a path that merely counts a field which is not among them
            # and files no position is equivalent
            skipped = any(a[1][0] == "call" and a[1][1].endswith("::contains_key") and "made_optional_at" in show(a[1][3][0])
                          and any(x[0] == "arg" and "str" in str(x[3] if len(x) > 3 else "") for x in mir.walk_expr(a[1][3][1]))
                          and guards.truth(a[2]) is False for a in p.atoms())
            if skipped and not pos and not any("FieldPosition" in show(c[5][-1]) for c in ins):
                rows.add("counted only")
                continue
            if v == "Some":
                rows.add("next")
                okk = len(pos) == 1 and "Add" in show(pos[0][5][1]) and arg_named(pos[0][5][0], "chunk", "u8")
                R.check(okk, b.key, "next position", "later fields of a chunk must get last_index + 1 within that chunk: %s" %
                        [show(a) for a in pos[0][5]] if pos else None, None, sample={"record_field_index": "(chunk, last+1)"})
            elif v == "None":
                rows.add("first")
                first = strip_refs(pos[0][5][1]) if len(pos) == 1 else ("unk",)
                zero = guards.rng(first) == (0, 0) or (first[0] == "call" and first[1].endswith("::insert") and
                                                       guards.rng(first[3][-1]) == (0, 0))
                okk = len(pos) == 1 and zero and arg_named(pos[0][5][0], "chunk", "u8")
                R.check(okk, b.key, "first position", "the first field of a chunk must get position 0")
        R.check(rows - {"counted only"} == {"first", "next"}, b.key, "rows", "rows: %s" % sorted(rows))
    return R


# ================================================================================================ T4
def header_reader(an, rep):
    R = rep.rule("T4", "AdtDeserializer::new interprets the header: FieldMadeOptional{position} -> made_optional_at[position] = "
                       "step index; FieldRemoved{name} -> removed_fields; every arm records exactly one region (empty for "
                       "non-chunk steps); new_v0 starts with stored_version 0 and no regions")
    core = an.core()
    b = core.find("AdtDeserializer::new")
    if not b:
        R.anchor_missing("AdtDeserializer::new")
        return R
    seen = {}
    for p in walk.walk(b, core, max_paths=6000):
        v = None
        for a in p.atoms():
            c = a[1]
            if c[0] == "discr" and any(n == "FieldAddedToNewChunk" for _, n in c[2]):
                v = walk.atom_variant(a) or "Unknown"
        if v is None or p.outcome[0] != "loopback":
            continue
        pushes = [c for c in p.events if c[0] == "call" and c[2] == "Vec<T, A>::push" and "InputRegion" in show(c[5][1])]
        ins_opt = [c for c in p.events if c[0] == "call" and c[2] == "BTreeMap<K, V, A>::insert"]
        ins_rem = [c for c in p.events if c[0] == "call" and c[2] == "HashSet<T, S, A>::insert"]
        seen[v] = seen.get(v, 0) + 1
        R.check(len(pushes) == 1, b.key, "one region " + v, "arm %s records %d regions" % (v, len(pushes)))
        if v == "FieldMadeOptional":
            okk = len(ins_opt) == 1 and not ins_rem and "position" in show(ins_opt[0][5][1]) and "as u8" in show(ins_opt[0][5][2])
            R.check(okk, b.key, "made optional", "FieldMadeOptional must record made_optional_at[position] = step index", None,
                    sample={"arm": v, "effect": "made_optional_at.insert(position, idx)"})
            R.check("InputRegion::empty" in show(pushes[0][5][1]) if pushes else False, b.key, "empty region " + v, "non-chunk step must record an empty region")
        elif v == "FieldRemoved":
            okk = len(ins_rem) == 1 and not ins_opt and "FieldRemoved" in show(ins_rem[0][5][1])
            R.check(okk, b.key, "removed", "FieldRemoved must add the name to removed_fields", None,
                    sample={"arm": v, "effect": "removed_fields.insert(name)"})
        elif v == "FieldAddedToNewChunk":
            R.check(not ins_opt and not ins_rem and "InputRegion::new" in show(pushes[0][5][1]) if pushes else False, b.key,
                    "chunk", "chunk step must record its region only")
        else:
            R.check(not ins_opt and not ins_rem, b.key, "unknown", "unknown step must only record an empty region")
    for v in ("FieldAddedToNewChunk", "FieldMadeOptional", "FieldRemoved"):
        R.check(seen.get(v, 0) > 0, b.key, "coverage " + v, "arm %s not found" % v)
    # rejections: every header the writer can produce is accepted.  The header reader fails only because a read / skip failed
    # (propagated) or because a chunk size is negative; an error *built* anywhere else refuses histories that are legal
    # (e.g. the same name removed twice: FieldMadeOptional(f) then FieldRemoved(f) is written as two FieldRemoved steps)
    n_rej = 0
    for p in walk.walk(b, core, max_paths=6000):
        kind, what = outcome_of(p)
        if p.outcome[0] != "return" or kind != "err":
            continue
        n_rej += 1
        arm = None
        conv_failed = False
        for a in p.atoms():
            c = a[1]
            if c[0] == "discr" and any(n == "FieldAddedToNewChunk" for _, n in c[2]):
                arm = walk.atom_variant(a) or "Unknown"
            if c[0] == "discr" and "try_from" in show(c[1]) and "size" in show(c[1]) and walk.atom_variant(a) in ("Err", "Break"):
                conv_failed = True
            if c[0] == "bin" and c[1] in ("Lt", "Ge") and "size" in show(c[2]) and guards.rng(c[3]) == (0, 0):
                conv_failed = conv_failed or (guards.truth(a[2]) == (c[1] == "Lt"))
        R.check(arm == "FieldAddedToNewChunk" and conv_failed, b.key, "rejection", "the header reader refuses a header in the %s "
                "arm for a reason other than a failed read or a negative chunk size (%s)" % (arm, what), None,
                sample={"rejection": "negative chunk size only"})
    # the final aggregate takes stored_version from the parameter
    for p in walk.walk(b, core, max_paths=6000):
        if p.outcome[0] == "return" and p.returns_ok():
            ret = strip_refs(p.outcome[1])
            inner = strip_refs(ret[4][0]) if ret[0] == "agg" else None
            if inner and inner[0] == "agg":
                names = [fl["name"] for a in core.items["adts"] if a["path"] == inner[2] for fl in a["variants"][0]["fields"]]
                f = dict(zip(names, inner[4]))
                R.check(arg_named(f.get("stored_version"), "stored_version", "u8"), b.key, "stored_version",
                        "stored_version must be the version byte passed in", None, sample={"new": "stored_version := argument"})
            break
    v0 = core.find("AdtDeserializer::new_v0")
    if v0:
        for p in walk.walk(v0, core):
            if p.outcome[0] == "return" and p.returns_ok():
                R.check(_only_empty_ctors(p, core), v0.key, "v0", "new_v0 must not read anything and start with empty tables",
                        None, sample={"new_v0": "no header"})
    else:
        R.anchor_missing("AdtDeserializer::new_v0")
    return R

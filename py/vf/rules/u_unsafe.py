"""Pack U - unsafe code and memory: inventory (U1), typed transmute obligations (U2), uninitialised-memory APIs (U3),
raw-pointer provenance (U4)."""
from .. import mir, guards, types
from ..mir import show

# U1: frozen inventory: function key -> (allowed unsafe callees / operations, reason)
UNSAFE_SITES = {
    "<[T; L] as BinaryDeserializer>::deserialize":
        ({"transmute_copy"}, "byte-array fast path: [u8; L] -> [T; L] under the castaway guard T == u8 (U2)"),
    "<Vec<T> as BinaryDeserializer>::deserialize":
        ({"transmute"}, "byte-vector fast path: Vec<u8> -> Vec<T> under the castaway guard T == u8 (U2)"),
    "State::get_ref_by_id":
        ({"*const T::as_ref"}, "reference table lookup (provenance: rule U4)"),
}

UNINIT_APIS = ("MaybeUninit<T>::assume_init", "MaybeUninit<T>::uninit", "MaybeUninit<T>::assume_init_ref",
               "MaybeUninit<T>::assume_init_mut", "MaybeUninit<T>::assume_init_read", "MaybeUninit<T>::zeroed",
               "MaybeUninit<T>::uninit_array", "MaybeUninit<T>::array_assume_init", "uninitialized", "zeroed",
               "Vec<T, A>::set_len", "Vec<T, A>::from_raw_parts", "Vec<T>::from_raw_parts", "from_raw_parts",
               "from_raw_parts_mut", "[T]::get_unchecked", "[T]::get_unchecked_mut", "String::from_utf8_unchecked",
               "from_utf8_unchecked", "unreachable_unchecked", "Box<T>::new_uninit", "Box<T>::assume_init",
               "BytesMut::set_len", "BufMut::advance_mut", "read", "read_unaligned", "write", "copy_nonoverlapping",
               "Box<[T]>::new_uninit_slice", "Vec<T, A>::spare_capacity_mut", "alloc", "dealloc", "realloc")


def _unsafe_ops(body):
    """Unsafe operations of a body from MIR: calls to unsafe fns, transmutes, raw-pointer derefs."""
    ops = []
    if not body.unsafe_fn and not any(u["user"] for u in body.unsafe_blocks):
        return ops      # without an enclosing unsafe block every unsafe MIR operation is compiler-generated (Box deref ..)
    for bb in sorted(mir.reachable(body)):
        blk = body.blocks[bb]
        if blk.get("cleanup"):
            continue
        for si, st in enumerate(blk["stmts"]):
            if st["k"] != "assign":
                continue
            sp = st.get("span") or {}
            rv = st["rv"]
            if rv["rv"] == "cast" and rv["kind"] == "Transmute" and not (
                    rv["from"].get("path", "").endswith("NonNull") and rv["to"].get("k") == "ptr"):
                ops.append(("transmute", bb, si, rv, sp))
            for pl in _places(st):
                if _derefs_raw(body, pl):
                    ops.append(("raw-deref", bb, si, pl, sp))
        t = blk["term"]
        if t["k"] == "call":
            info = mir.callee_info(t["callee"])
            sp = t.get("span") or {}
            if info["unsafe"]:
                ops.append((info["key"], bb, "term", t, sp))
    return ops


def _places(st):
    out = [st["place"]]
    rv = st["rv"]
    for k in ("x", "l", "r"):
        if k in rv:
            p = mir.op_place(rv[k])
            if p:
                out.append(p)
    if "place" in rv:
        out.append(rv["place"])
    for f in rv.get("fields", []):
        p = mir.op_place(f)
        if p:
            out.append(p)
    return out


def _derefs_raw(body, pl):
    # a deref projection applied to a raw pointer typed prefix
    ty = body.locals[pl["local"]]["ty"]
    for pr in pl["proj"]:
        if pr["p"] == "deref":
            if ty.get("k") == "ptr":
                return True
            ty = ty.get("t", {}) if ty.get("k") in ("ref", "ptr") else {}
        elif pr["p"] == "field":
            ty = pr["ty"]
        else:
            ty = {}
    return False


def inventory(an, rep):
    R = rep.rule("U1", "all unsafe operations of desert_core (user-written unsafe blocks from HIR; calls of unsafe fns, "
                       "transmutes and raw-pointer derefs from MIR; unsafe impls and unsafe fns) are a subset of the frozen "
                       "inventory")
    core = an.core()
    from .. import callgraph
    from .n_totality import _owner_fn
    owner, users = _owner_fn(core, callgraph.CallGraph(core))
    nblocks = nops = 0
    for b in sorted(core.bodies.values(), key=lambda b: b.key):
        user_blocks = [u for u in b.unsafe_blocks if u["user"]]
        ops = [o for o in _unsafe_ops(b) if not (o[4].get("exp") and not _local_file(o[4]))]
        if not user_blocks and not ops and not b.unsafe_fn:
            continue
        fk = b.key.split("::{closure")[0]
        allowed = UNSAFE_SITES.get(fk)
        if allowed is None:
            # a private helper is accounted to the function(s) that use it: all of them must have the entry
            root = core.bodies.get(b.raw.get("root")) if b.kind == "Closure" else b
            us = users(root or b)
            ents = [UNSAFE_SITES.get(u) for u in us]
            if us and all(e is not None for e in ents):
                allowed = (set.intersection(*[set(e[0]) for e in ents]), "private helper of %s: %s" % (sorted(us), ents[0][1]))
        if b.unsafe_fn:
            R.fail(b.key, "unsafe fn", "unsafe fn is not in the frozen inventory", mir.loc(b, 0))
        for u in user_blocks:
            nblocks += 1
            R.check(allowed is not None, b.key, "unsafe block", "unsafe block in a function that is not in the frozen "
                    "unsafe inventory", "%s:%s" % (u["span"]["f"], u["span"]["l"]),
                    sample={"fn": b.key, "unsafe_block": True, "reason": allowed and allowed[1]})
        for o in ops:
            nops += 1
            name = o[0]
            okk = allowed is not None and name in allowed[0]
            R.check(okk, b.key, "unsafe op " + name, "unsafe operation `%s` is not in the frozen inventory for this "
                    "function" % name, mir.loc(b, o[1], o[2]), sample={"fn": b.key, "op": name})
    for imp in core.items["impls"]:
        if imp["unsafe"] and not (imp["span"].get("exp") and "derive" in str(imp["span"].get("exp")).lower()):
            if imp["span"].get("exp"):
                continue  # compiler-generated (derive) unsafe impls such as TrivialClone
            R.fail("impl %s for %s" % (imp["trait"], imp["self"]["s"]), "unsafe impl", "unsafe impl is not in the frozen "
                   "inventory", "%s:%s" % (imp["span"]["f"], imp["span"]["l"]))
    R.floor("user-written unsafe blocks", nblocks, 3)
    R.floor("unsafe operations in MIR", nops, 3)
    return R


def _local_file(sp):
    return not str(sp.get("df", "")).startswith("/")


def _guard_equations(body, ex, facts, bb):
    """Type equations established by dominating castaway guards: list of (src_type, dst_type)."""
    eqs = []
    for cond, val, d in facts.get(bb, ()):
        tv = guards.truth(val)
        e = cond
        # `cast!(..).is_ok()` == true
        if e[0] == "call" and e[1] == "Result<T, E>::is_ok" and tv is True:
            inner = mir.strip_refs(e[3][0])
            if inner[0] == "call" and "try_cast" in inner[1] and inner[2].startswith("castaway::"):
                targs = inner[5]
                if len(targs) >= 3:
                    eqs.append((targs[-2], targs[-1]))
        # `if let Ok(x) = cast!(..)`: switch on the discriminant of the try_cast result, Ok == 0
        if e[0] == "discr":
            inner = mir.strip_refs(e[1])
            if inner[0] == "call" and "try_cast" in inner[1] and inner[2].startswith("castaway::") and val == 0:
                targs = inner[5]
                if len(targs) >= 3:
                    eqs.append((targs[-2], targs[-1]))
    return eqs


def _path_equations(events):
    """type equations established by the castaway guards a path has passed: (src, dst) pairs"""
    eqs = []
    for e in events:
        if e[0] != "atom":
            continue
        c, v = e[1], e[2]
        inner = None
        if c[0] == "call" and c[3] and ((c[1] == "Result<T, E>::is_ok" and guards.truth(v) is True) or
                                          (c[1] == "Result<T, E>::is_err" and guards.truth(v) is False)):
            inner = mir.strip_refs(c[3][0])
        elif c[0] == "discr":
            from .. import walk as W
            if W.atom_variant(("atom", c, v)) == "Ok":
                inner = mir.strip_refs(c[1])
        if inner is not None and inner[0] == "call" and "try_cast" in inner[1] and (inner[2] or "").startswith("castaway::"):
            targs = inner[5]
            if len(targs) >= 3:
                eqs.append((targs[-2], targs[-1]))
    return eqs


def transmutes(an, rep, crate=None):
    R = rep.rule("U2", "every transmute / transmute_copy::<S, D> is reached only through a castaway type-equality guard whose "
                       "most general unifier theta makes theta(S) == theta(D) (path-wise from the function that owns the "
                       "site: a private helper holding the transmute is checked from each function that uses it)")
    from .. import walk, callgraph
    from .n_totality import _owner_fn
    core = crate or an.core()
    owner, users = _owner_fn(core, callgraph.CallGraph(core))
    n = 0
    entries = {}
    for b in sorted(core.bodies.values(), key=lambda b: b.key):
        k = 0
        for o in _unsafe_ops(b):
            if o[0] == "transmute":
                rv = o[3]
                if not (rv["from"].get("k") == "ptr" and rv["to"].get("k") == "ptr"):
                    k += 1
            elif o[0] == "transmute_copy":
                k += 1
        if not k:
            continue
        n += k
        root = core.bodies.get(b.raw.get("root")) if b.kind == "Closure" else b
        root = root or b
        es = users(root) or {root.key}
        for e in es:
            entries.setdefault(e, []).append(b.key)
    for ekey, site_fns in sorted(entries.items()):
        eb = core.find(ekey)
        if eb is None:
            R.fail(ekey, "entry", "function owning a transmute site not found (fail closed)")
            continue
        reached = 0
        for p in walk.walk(eb, core, max_paths=4000):
            for i, ev in enumerate(p.events):
                if ev[0] == "xmute":
                    S, D = ev[1], ev[2]
                elif ev[0] == "call" and ev[2] in ("transmute_copy", "transmute") and len(ev[6]) >= 2:
                    S, D = ev[6][0], ev[6][1]
                else:
                    continue
                reached += 1
                eqs = _path_equations(p.events[:i])
                what = "transmute %s -> %s" % (types.show(S), types.show(D))
                if not eqs:
                    R.fail(ekey, what, "transmute is not dominated by a castaway type-equality guard", mir.loc(eb, 0))
                    continue
                theta = {}
                okk = True
                for (x, y) in eqs:
                    th = types.unify(x, y, theta)
                    if th is None:
                        okk = False
                        break
                    theta = th
                s2, d2 = types.subst(S, theta), types.subst(D, theta)
                R.check(okk and types.ty_eq(s2, d2), ekey, what,
                        "under the guard's unifier %s the source is %s but the destination is %s" %
                        ({k_: types.show(v_) for k_, v_ in theta.items()}, types.show(s2), types.show(d2)), mir.loc(eb, 0),
                        sample={"fn": ekey, "S": types.show(S), "D": types.show(D),
                                "theta": {k_: types.show(v_) for k_, v_ in theta.items()}})
        R.check(reached > 0, ekey, "site reached", "no explored path of %s reaches the transmute in %s (fail closed)" %
                (ekey, site_fns), mir.loc(eb, 0))
    if crate is None:
        R.floor("transmute sites", n, 2)
    return R


def uninit_apis(an, rep, extra_crates=(), crate=None):
    R = rep.rule("U3", "no API that yields uninitialised / unchecked memory (MaybeUninit::assume_init, mem::uninitialized, "
                       "set_len, from_raw_parts, get_unchecked, ptr::read/write, ...) is called from desert_core")
    core = crate or an.core()
    n = 0
    for b in sorted(core.bodies.values(), key=lambda b: b.key):
        for bb, t, info in mir.calls(b):
            n += 1
            sp = t.get("span") or {}
            if sp.get("exp") and not _local_file(sp):
                continue
            if info["key"] in UNINIT_APIS and (info["unsafe"] or "MaybeUninit" in info["key"] or "uninit" in info["key"]):
                R.fail(b.key, "call " + info["key"], "call of an uninitialised-/unchecked-memory API", mir.loc(b, bb))
    R.count("call sites inspected", n)
    R.ok()
    return R


def unbounded_lifetimes(an, rep, crate=None):
    R = rep.rule("U7", "no function containing unsafe code has a lifetime parameter that occurs in its return type but in none "
                       "of its argument types and no where-clause (an unbounded lifetime: the caller may choose 'static, so a "
                       "reference manufactured in the unsafe block outlives whatever it points into)")
    import re
    core = crate or an.core()
    n = 0
    for b in sorted(core.bodies.values(), key=lambda b: b.key):
        sig = b.raw.get("sig")
        if not sig or b.test:
            continue
        n += 1
        # in safe code the borrow checker only lets such a function return 'static data; the danger is a reference
        # manufactured in an unsafe block
        if not b.unsafe_fn and not any(u["user"] for u in b.unsafe_blocks):
            continue
        for lt in sig["lifetimes"]:
            rx = re.compile(re.escape(lt) + r"(?![A-Za-z0-9_])")
            in_out = bool(rx.search(sig["output"]))
            in_args = any(rx.search(i) for i in sig["inputs"])
            in_preds = any(rx.search(p) for p in b.preds)
            if in_out:
                R.check(in_args or in_preds, b.key, "lifetime " + lt, "lifetime %s occurs only in the return type %s: it is not "
                        "tied to any argument" % (lt, sig["output"][:80]), mir.loc(b, 0),
                        sample={"fn": b.key, "lifetime": lt, "bounded_by": "argument" if in_args else "where clause"})
    if crate is None:
        R.floor("function signatures inspected", n, 200)
        refs = [b for b in core.bodies.values() if b.raw.get("sig") and not b.test and "&" in b.raw["sig"]["output"]]
        R.floor("functions returning references", len(refs), 10)
        for b in refs:
            R.ok()
    return R


def raw_provenance(an, rep):
    R = rep.rule("U4", "every struct field that stores a raw pointer later dereferenced into a returned reference is "
                       "written only by functions that are `unsafe fn` or take the pointee by ownership / 'static borrow "
                       "(a safe fn storing `&'a T` as a raw pointer erases the lifetime)")
    core = an.core()
    # 1. fields holding raw pointers
    ptr_fields = {}
    for adt in core.items["adts"]:
        for v in adt["variants"]:
            for f in v["fields"]:
                if types.contains(f["ty"], lambda t: t.get("k") == "ptr"):
                    ptr_fields.setdefault(adt["path"], []).append(f["name"])
    # 2. readers: functions dereferencing (unsafe) a pointer loaded from such a field and returning a reference
    readers = []
    writers = {}
    for b in sorted(core.bodies.values(), key=lambda b: b.key):
        ex = None
        for bb, t, info in mir.calls(b):
            if info["key"] in ("*const T::as_ref", "*mut T::as_ref", "*mut T::as_mut", "NonNull<T>::as_ref"):
                ex = ex or mir.Expr(b)
                src = ex.operand(t["args"][0])
                flds = [x[2] for x in mir.walk_expr(src) if x[0] == "field"]
                readers.append((b, bb, flds))
        # writers: insert/push/assign into a pointer-holding field of self
        for bb, t, info in mir.calls(b):
            if not t["args"]:
                continue
            ex = ex or mir.Expr(b)
            recv = ex.operand(t["args"][0])
            inner = mir.strip_refs(recv)
            if inner[0] == "field" and info["key"].split("::")[-1] in ("insert", "push", "entry", "extend", "push_back"):
                base_ty = _owner_adt(b, inner)
                if base_ty in ptr_fields and inner[2] in ptr_fields[base_ty]:
                    writers.setdefault((base_ty, inner[2]), []).append((b, bb, t, info))
    R.floor("raw-pointer fields", sum(len(v) for v in ptr_fields.values()), 2)
    R.floor("raw-pointer readers", len(readers), 1)
    read_fields = set()
    for b, bb, flds in readers:
        for f in flds:
            read_fields.add(f)
    for (adt, fld), ws in sorted(writers.items()):
        if fld not in read_fields:
            continue
        for b, bb, t, info in ws:
            ex = mir.Expr(b)
            stored = [ex.operand(a) for a in t["args"][1:]]
            erased = None
            for e in stored:
                for x in mir.walk_expr(e):
                    if x[0] == "arg" and x[3].startswith("&") and "'static" not in x[3]:
                        erased = x
            if b.unsafe_fn or erased is None:
                R.ok(sample={"fn": b.key, "field": fld, "writer_ok": True})
            else:
                R.fail("%s -> %s" % (b.key, fld), "lifetime erasure",
                       "safe fn stores the borrowed parameter `%s: %s` into the raw-pointer field `%s`, which "
                       "%s later hands out as a reference" % (erased[2], mir.short(erased[3]), fld,
                                                              ", ".join(sorted({r[0].key for r in readers}))),
                       mir.loc(b, bb))
    return R


def _owner_adt(body, field_expr):
    base = mir.strip_refs(field_expr[1])
    ty = None
    if base[0] == "arg":
        ty = body.locals[base[1]]["ty"]
        while ty.get("k") in ("ref", "ptr"):
            ty = ty["t"]
        return ty.get("path")
    return None

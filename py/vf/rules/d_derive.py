"""Pack D - translation validation of #[derive(BinaryCodec)]: for every declaration of the corpus the skeleton of the
generated writer / reader / metadata static (extracted from the expansion's MIR) must equal the skeleton an independent
model computes from the declaration as written (read with syn; derive helper attributes are not in HIR)."""
import glob
import os
import re

from .. import mir, guards, walk
from ..core import VERIF, REPO
from ..mir import show, strip_refs
from .t_tables import called_exact, sig_calls, is_call, outcome_of, atom_zero

DECLSCAN = os.path.join(VERIF, "engine", "declscan", "target", "release", "declscan")

REPO_UNITS = [
    # (glob relative to /repo, crate name, test build?)
    ("desert_macro/tests/derivation.rs", "derivation", True),
    ("desert_macro/tests/golden.rs", "golden", True),
    ("desert_macro/tests/string_deduplication.rs", "string_deduplication", True),
    ("desert_benchmarks/src/*.rs", "desert_benchmarks", False),
]


def declarations(an, source=None):
    """list of (decl, crate facts)"""
    if source is not None:
        import hashlib
        f, prog, crate = source
        h = hashlib.sha256(open(f, "rb").read()).hexdigest()[:10]
        data = an.tool_json("declscan-gen-" + h, lambda: [DECLSCAN, f])
        return [(d, prog, crate, False) for d in data["decls"]], data.get("errors", [])
    from ..core import sub_hash
    files = [os.path.join(VERIF, "corpus", "src", "lib.rs")]
    if not os.path.isfile(DECLSCAN):
        raise SystemExit("declscan not built (run ./setup.sh)")
    unit_of = {files[0]: ("corpus", "verif_corpus", False)}
    for pat, crate, test in REPO_UNITS:
        for f in sorted(glob.glob(os.path.join(REPO, pat))):
            files.append(f)
            unit_of[f] = ("default", crate, test)
    data = an.tool_json("declscan-" + sub_hash("corpus", "engine/declscan/src"), lambda: [DECLSCAN] + files)
    out = []
    for d in data["decls"]:
        which, crate, test = unit_of[d["file"]]
        prog = an.corpus() if which == "corpus" else an.program()
        out.append((d, prog, crate, test))
    return out, data.get("errors", [])


# ------------------------------------------------------------------------------------------------ the model
def model_fields(fields, evolution):
    defaults = {s["name"]: s["default"] for s in evolution if s["kind"] == "FieldAdded"}
    w, r, agg = [], [], []
    for f in fields:
        if f["transient"] is not None:
            agg.append(("transient", f["name"]))
            continue
        w.append(f["name"])
        r.append((f["name"], "read_optional_field" if f["option"] else "read_field", f["name"] in defaults))
        agg.append(("read", f["name"]))
    return w, r, agg


def model_meta(evolution):
    return [("InitialVersion", None)] + [(s["kind"], s["name"]) for s in evolution]


def model(decl):
    if decl["kind"] == "struct":
        w, r, agg = model_fields(decl["fields"], decl["evolution"])
        return {"ctor": "new" if decl["evolution"] else "new_v0", "static": (decl["name"] + "_metadata").upper(),
                "write": w, "read": r, "agg": agg, "meta": model_meta(decl["evolution"])}
    variants = list(decl["variants"])
    if decl["sorted"]:
        variants = sorted(variants, key=lambda v: v["name"])
    cases = []
    for i, v in enumerate(variants):
        if v["transient"]:
            cases.append({"idx": i, "name": v["name"], "transient": True})
            continue
        w, r, agg = model_fields(v["fields"], v["evolution"])
        cases.append({"idx": i, "name": v["name"], "transient": False, "ctor": "new" if v["evolution"] else "new_v0",
                      "static": ("%s_%s_metadata" % (decl["name"], v["name"])).upper(), "write": w, "read": r, "agg": agg,
                      "meta": model_meta(v["evolution"])})
    return {"ctor": "new" if decl["evolution"] else "new_v0", "static": (decl["name"] + "_metadata").upper(), "cases": cases,
            "meta": model_meta(decl["evolution"])}


# ------------------------------------------------------------------------------------------------ extraction
_STATIC = re.compile(r"^<(\w+) as Deref>::deref$")


def _static_of(term):
    """name of the lazy static whose deref feeds this term"""
    for x in mir.walk_expr(term):
        if x[0] == "call":
            m = _STATIC.match(x[1])
            if m:
                return m.group(1)
    return None


def _str(term):
    for x in mir.walk_expr(term):
        if x[0] == "const" and x[5] is not None:
            return x[5]
    return None


def _all_continue(p):
    for a in p.atoms():
        if a[1][0] == "discr" and strip_refs(a[1][1])[0] == "try" and walk.atom_variant(a) != "Continue":
            return False
    return True


def writer_skeleton(body, crate, single_variant=None):
    """-> {'ctor','static','write':[names], 'values':[terms], 'cases': {variant: {...}}, 'finish': bool}"""
    out = {"cases": {}, "write": [], "values": []}
    for p in walk.walk(body, crate):
        if not _all_continue(p):
            continue
        variant = None
        for a in p.atoms():
            if a[1][0] == "discr" and strip_refs(a[1][1])[0] == "arg":
                variant = walk.atom_variant(a)
        ctor = [c for c in p.calls() if c[2] in ("AdtSerializer<Output>::new_v0", "AdtSerializer<Output>::new")]
        if len(ctor) == 1:
            out["ctor"] = ctor[0][2].split("::")[-1]
            out["static"] = _static_of(ctor[0][5][0])
        wf = called_exact(p, "AdtSerializer<Output>::write_field")
        fin = called_exact(p, "AdtSerializer<Output>::finish")
        wc = called_exact(p, "AdtSerializer<Output>::write_constructor")
        kind, what = outcome_of(p)
        if variant is None and single_variant is not None and (wc or kind == "err"):
            variant = single_variant
        if variant is None:
            out["write"] = [_str(c[5][1]) for c in wf]
            out["values"] = [c[5][2] for c in wf]
            out["finish"] = len(fin) == 1 and p.outcome[0] == "return"
        else:
            case = {"finish": len(fin) == 1}
            if kind == "err":
                case["err"] = what
                case["strings"] = sorted(s for s in (x[5] for x in mir.walk_expr(p.outcome[1]) if x[0] == "const") if s)
            elif len(wc) == 1:
                r = guards.rng(wc[0][5][1])
                case["idx"] = r[0] if r and r[0] == r[1] else None
                clos = strip_refs(wc[0][5][2])
                case["closure"] = clos[2] if clos[0] == "agg" and clos[1] == "closure" else None
                case["captures"] = clos[4] if clos[0] == "agg" else []
            out["cases"][variant] = case
    return out


def closure_writer(body, crate):
    out = {"write": [], "ok": False}
    for p in walk.walk(body, crate):
        if not _all_continue(p) or p.outcome[0] != "return":
            continue
        ctor = [c for c in p.calls() if c[2] in ("AdtSerializer<Output>::new_v0", "AdtSerializer<Output>::new")]
        if len(ctor) != 1:
            continue
        out["ctor"] = ctor[0][2].split("::")[-1]
        out["static"] = _static_of(ctor[0][5][0])
        wf = called_exact(p, "AdtSerializer<Output>::write_field")
        out["write"] = [_str(c[5][1]) for c in wf]
        out["values"] = [c[5][2] for c in wf]
        out["ok"] = len(called_exact(p, "AdtSerializer<Output>::finish")) == 1
    return out


def _reads(p):
    rs = []
    for c in p.calls():
        if c[2] in ("AdtDeserializer::read_field", "AdtDeserializer::read_optional_field"):
            d = strip_refs(c[5][2])
            has_default = d[0] == "agg" and d[3] == "Some"
            rs.append((_str(c[5][1]), c[2].split("::")[-1], has_default, c[1], d))
    return rs


def record_reader(body, crate):
    """-> {'v0': branch, 'vn': branch}; branch = {'ctor','static','reads':[(name,kind,has_default)],'agg':[...], 'variant'}"""
    out = {}
    for p in walk.walk(body, crate, max_paths=6000):
        if not _all_continue(p) or p.outcome[0] != "return":
            continue
        ver = called_exact(p, "<DeserializationContext as BinaryInput>::read_u8", "BinaryInput::read_u8")
        if len(ver) != 1:
            continue
        isv0 = None
        for a in p.atoms():
            c = a[1]
            z = atom_zero(a, "read_u8") if c[0] != "discr" else None
            if z is not None:
                isv0 = z
        ctor = [c for c in p.calls() if c[2] in ("AdtDeserializer::new_v0", "AdtDeserializer::new")]
        if isv0 is None or len(ctor) != 1:
            continue
        kind, what = outcome_of(p)
        br = {"ctor": ctor[0][2].split("::")[-1], "static": _static_of(ctor[0][5][0]), "reads": _reads(p), "kind": kind}
        if ctor[0][2].endswith("::new"):
            br["version_arg"] = "read_u8" in show(ctor[0][5][2])
        if kind == "ok":
            v = strip_refs(what)
            inner = strip_refs(v[4][0]) if v[0] == "agg" and v[3] == "Ok" and v[4] else None
            if inner is not None and inner[0] == "agg" and inner[1] == "adt":
                br["variant"] = inner[3]
                br["agg"] = inner[4]
            elif inner is not None:
                br["variant"] = None
                br["agg"] = []
        elif kind == "err":
            br["err"] = what
        out["v0" if isv0 else "vn"] = br
    return out


def enum_reader(body, crate):
    """-> {'v0': {...}, 'vn': {...}} with 'chain': [(idx, closure def)], 'fallthrough': outcome"""
    out = {}
    for p in walk.walk(body, crate, max_paths=20000):
        if p.outcome[0] != "return":
            continue
        isv0 = None
        for a in p.atoms():
            c = a[1]
            z = atom_zero(a, "read_u8") if c[0] != "discr" else None
            if z is not None:
                isv0 = z
        if isv0 is None or not _all_continue(p):
            continue
        rc = called_exact(p, "AdtDeserializer::read_constructor")
        # the fall-through path: every read_constructor returned None
        nones = 0
        somes = 0
        for a in p.atoms():
            if a[1][0] == "discr" and "read_constructor" in show(a[1][1]) and strip_refs(a[1][1])[0] != "try":
                v = walk.atom_variant(a)
                nones += v == "None"
                somes += v == "Some"
        key = "v0" if isv0 else "vn"
        ctor = [c for c in p.calls() if c[2] in ("AdtDeserializer::new_v0", "AdtDeserializer::new")]
        if somes == 0:
            chain = []
            for c in rc:
                r = guards.rng(c[5][1])
                clos = strip_refs(c[5][2])
                chain.append((r[0] if r and r[0] == r[1] else None, clos[2] if clos[0] == "agg" and clos[1] == "closure" else None))
            kind, what = outcome_of(p)
            out[key] = {"chain": chain, "fall_kind": kind, "fall": what, "fall_term": p.outcome[1],
                        "ctor": ctor[0][2].split("::")[-1] if len(ctor) == 1 else None,
                        "static": _static_of(ctor[0][5][0]) if len(ctor) == 1 else None,
                        "panic": False}
    # panicking fall-through (unreachable!()) shows up as a non-return outcome
    for p in walk.walk(body, crate, max_paths=20000):
        if p.outcome[0] == "panic":
            out.setdefault("panic", []).append(p.outcome[1])
    return out


def metadata_steps(crate, static_name):
    """evolution steps pushed by the lazy initialiser of a static: [(variant, name)]"""
    key = "<%s as Deref>::__static_ref_initialize" % static_name
    b = crate.find(key)
    if not b:
        return None
    steps = []
    for p in walk.walk(b, crate):
        if p.outcome[0] != "return":
            continue
        st = []
        for c in p.calls():
            if c[2] == "Vec<T, A>::push":
                v = strip_refs(c[5][1])
                if v[0] == "agg" and v[2] and v[2].endswith("::Evolution"):
                    st.append((v[3], _str(v)))
        news = called_exact(p, "AdtMetadata::new")
        if len(news) == 1 and not st:
            # `vec![step, ..]`: one array of steps stored into the allocation that becomes the vector handed to new()
            arg = show(news[0][5][0])
            for s_ in p.stores():
                v = strip_refs(s_[2])
                if v[0] == "agg" and v[1] == "array" and v[4] and all(
                        strip_refs(e)[0] == "agg" and (strip_refs(e)[2] or "").endswith("::Evolution") for e in v[4]):
                    base = [x for x in mir.walk_expr(s_[1]) if x[0] == "call"]
                    if base and show(base[0]) in arg:
                        st = [(strip_refs(e)[3], _str(strip_refs(e))) for e in v[4]]
            if not st:
                v = strip_refs(news[0][5][0])
                lit = [x for x in mir.walk_expr(v) if x[0] == "agg" and x[1] == "array"]
                if lit and all(strip_refs(e)[0] == "agg" and (strip_refs(e)[2] or "").endswith("::Evolution") for e in lit[0][4]):
                    st = [(strip_refs(e)[3], _str(strip_refs(e))) for e in lit[0][4]]
        if len(news) == 1:
            steps = st
    return steps


# ------------------------------------------------------------------------------------------------ the rules
def _field_names_in(term):
    return {x[2] for x in mir.walk_expr(term) if x[0] == "field"}


def validate(an, rep, only=None, source=None):
    decls, errors = declarations(an, source)
    R1 = rep.rule("D1", "struct skeleton: writer = new_v0 iff no evolution steps else new, on the type's metadata static; "
                        "write_field(name) for the non-transient fields in declaration order; finish.  Reader = version "
                        "byte; ==0 -> new_v0 else new(stored_version); read_optional_field iff the type is spelled Option, "
                        "else read_field, with the declared default iff a FieldAdded step names the field; struct literal "
                        "built from exactly these reads and the transient defaults")
    R2 = rep.rule("D2", "enum skeleton: constructor index = position in declaration order (name order under "
                        "sorted_constructors), same index in the writer arm and the reader chain, all variants covered, each "
                        "case encoded as its own record on its own per-case metadata static")
    R3 = rep.rule("D3", "transient fields: no write_field, no read, written bytes do not depend on the field, default "
                        "expression used; transient constructors: dedicated errors naming type and constructor, nothing written")
    R4 = rep.rule("D4", "every metadata static is [InitialVersion] ++ declared steps with the declared names")
    R6 = rep.rule("D6", "new_v0 is used iff the metadata has zero steps (certificate for the assert_eq!(version, 0) in new_v0)")
    R7 = rep.rule("D7", "the fall-through of every derived enum reader is an error return (InvalidConstructorId), never a panic")
    for e in errors:
        R1.fail("<declscan>", "parse error", e)
    n_struct = n_enum = 0
    programs = 0
    for decl, prog, crate_name, test in decls:
        try:
            crate = prog.crate(crate_name, test)
        except KeyError as e:
            R1.fail(decl["name"], "crate", "facts for the crate holding this declaration are missing: %s" % e)
            continue
        name = decl["name"]
        if only and name not in only:
            continue
        wb = crate.find("<%s as BinarySerializer>::serialize" % name)
        rb = crate.find("<%s as BinaryDeserializer>::deserialize" % name)
        where = "%s:%s" % (decl["file"].replace(REPO + "/", "").replace(VERIF + "/", ""), decl["line"])
        tag = "%s::%s" % (crate_name, name)
        if not wb or not rb:
            R1.fail(tag, "impls", "derived impls not found (or ambiguous) in the analysed crate", where)
            continue
        programs += 1
        m = model(decl)
        single = decl["variants"][0]["name"] if decl["kind"] == "enum" and len(decl["variants"]) == 1 else None
        W = writer_skeleton(wb, crate, single)
        # ---------------------------------------------------------------- metadata
        steps = metadata_steps(crate, m["static"])
        R4.check(steps == m["meta"], tag, "metadata " + m["static"], "static holds %s, declared %s" % (steps, m["meta"]), where,
                 sample={"decl": tag, "static": m["static"], "steps": steps})
        R6.check(W.get("ctor") == m["ctor"] and W.get("static") == m["static"], tag, "writer constructor",
                 "writer uses %s(%s); the declaration (%d steps) requires %s(%s)" %
                 (W.get("ctor"), W.get("static"), len(m["meta"]) - 1, m["ctor"], m["static"]), where,
                 sample={"decl": tag, "steps": len(m["meta"]) - 1, "ctor": W.get("ctor")})
        if decl["kind"] == "struct":
            n_struct += 1
            R1.check(W["write"] == m["write"] and W.get("finish"), tag, "writer fields",
                     "writer writes %s (finish=%s), the declaration requires %s" % (W["write"], W.get("finish"), m["write"]), where,
                     sample={"decl": tag, "writes": W["write"]})
            transient = [f["name"] for f in decl["fields"] if f["transient"] is not None]
            for val, nm in zip(W.get("values", []), W["write"]):
                used = _field_names_in(val)
                R1.check(nm in used or not used, tag, "writer value " + str(nm), "write_field(%r) is fed from %s" % (nm, sorted(used)), where)
                for t in transient:
                    R3.check(t not in used, tag, "transient field %s reaches the writer" % t,
                             "the value written for %r depends on the transient field %r" % (nm, t), where)
            for t in transient:
                R3.check(t not in W["write"], tag, "transient field %s written" % t, "transient field is written", where,
                         sample={"decl": tag, "transient": t, "written": False})
            RD = record_reader(rb, crate)
            for br, want_ctor in (("v0", "new_v0"), ("vn", "new")):
                b = RD.get(br)
                if not R1.check(b is not None and b.get("kind") == "ok", tag, "reader branch " + br,
                                "no successful path for the stored-version %s branch" % ("0" if br == "v0" else ">0"), where):
                    continue
                R1.check(b["ctor"] == want_ctor and b["static"] == m["static"] and b.get("version_arg", True), tag,
                         "reader constructor " + br, "reader branch %s uses %s(%s)" % (br, b["ctor"], b["static"]), where)
                got = [(n, k, d) for n, k, d, _, _ in b["reads"]]
                R1.check(got == m["read"], tag, "reader fields " + br, "reader reads %s, the declaration requires %s" % (got, m["read"]),
                         where, sample={"decl": tag, "branch": br, "reads": got})
                _check_aggregate(R1, R3, tag, br, b, m["agg"], decl["fields"], where)
        else:
            n_enum += 1
            _check_enum(R2, R3, R4, R6, R7, tag, decl, m, W, rb, crate, where)
    R1.floor("struct declarations", n_struct, 30 if not only else 0)
    rep.extra.setdefault("corpus_samples", [])
    R2.floor("enum declarations", n_enum, 15 if not only else 0)
    rep.extra["programs"] = programs
    rep.extra["disagreements_checked"] = sum(r.obligations for r in (R1, R2, R3, R4, R6, R7))
    return R1


def _check_aggregate(R1, R3, tag, br, b, want_agg, fields, where):
    agg = b.get("agg", [])
    if not R1.check(len(agg) == len(want_agg), tag, "literal arity " + br, "struct literal has %d fields, declaration %d" %
                    (len(agg), len(want_agg)), where):
        return
    read_sites = [s for _, _, _, s, _ in b["reads"]]
    k = 0
    for (kind, fname), term in zip(want_agg, agg):
        sites = [x[4] for x in mir.walk_expr(term) if x[0] == "call" and x[1] in
                 ("AdtDeserializer::read_field", "AdtDeserializer::read_optional_field")]
        if kind == "read":
            okk = k < len(read_sites) and sites == [read_sites[k]]
            R1.check(okk, tag, "literal field %s %s" % (fname, br), "field %r is not built from its own read (the %d-th)" % (fname, k), where)
            k += 1
        else:
            R3.check(not sites, tag, "transient default %s %s" % (fname, br), "transient field %r is built from a read instead "
                     "of its default expression" % fname, where, sample={"decl": tag, "transient": fname, "value": show(term)[:60]})
            # a default declared as an integer literal is that literal (not, say, the default of a FieldAdded step of the
            # same field)
            import re as _re
            decl_expr = next((str(f["transient"]) for f in fields if f["name"] == fname and f["transient"] is not None), "")
            m_ = _re.fullmatch(r"\s*(\d+)\s*_?\s*([ui](8|16|32|64|128|size))?\s*", decl_expr)
            got = guards.rng(term) if isinstance(term, tuple) else None
            if m_ and got and got[0] == got[1]:
                R3.check(got[0] == int(m_.group(1)), tag, "transient default value %s %s" % (fname, br), "transient field %r is "
                         "declared with the default %s and built as %d" % (fname, decl_expr.strip(), got[0]), where,
                         sample={"decl": tag, "transient": fname, "declared": decl_expr.strip(), "built": got[0]})


def _check_enum(R2, R3, R4, R6, R7, tag, decl, m, W, rb, crate, where):
    ER = enum_reader(rb, crate)
    R7.check(not ER.get("panic"), tag, "reader can panic", "derived enum reader reaches %s" % ER.get("panic"), where)
    declared = {v["name"]: v for v in decl["variants"]}
    R2.check(set(W["cases"]) == set(declared), tag, "writer arms", "writer arms %s, declared variants %s" %
             (sorted(W["cases"]), sorted(declared)), where)
    for br, want_ctor in (("v0", "new_v0"), ("vn", "new")):
        e = ER.get(br)
        if not R2.check(e is not None, tag, "reader branch " + br, "fall-through path of branch %s not found" % br, where):
            continue
        R2.check(e["ctor"] == want_ctor and e["static"] == m["static"], tag, "reader constructor " + br,
                 "branch %s uses %s(%s)" % (br, e["ctor"], e["static"]), where)
        idxs = [i for i, _ in e["chain"]]
        R2.check(idxs == list(range(len(m["cases"]))), tag, "reader chain " + br, "reader tries indices %s, the declaration "
                 "has %d constructors" % (idxs, len(m["cases"])), where, sample={"decl": tag, "chain": idxs})
        okf = e["fall_kind"] == "ok" and False
        ft = strip_refs(e["fall_term"])
        if ft[0] == "agg" and ft[3] == "Err":
            inner = strip_refs(ft[4][0])
            okf = is_call(inner, "AdtDeserializer::invalid_constructor_id") and mir.short(decl["name"]) in show(inner)
        R7.check(okf, tag, "fall-through " + br, "after the constructor chain the reader must return "
                 "Err(invalid_constructor_id(type name)); found %s" % show(e["fall_term"])[:120], where,
                 sample={"decl": tag, "fallthrough": "Err(InvalidConstructorId)"})
    for case in m["cases"]:
        vn = case["name"]
        wc = W["cases"].get(vn, {})
        ctag = "%s::%s" % (tag, vn)
        if case["transient"]:
            okk = wc.get("err") == "SerializingTransientConstructor" and decl["name"] in wc.get("strings", []) and vn in wc.get("strings", [])
            R3.check(okk, ctag, "transient constructor (writer)", "writing a transient constructor must fail with "
                     "SerializingTransientConstructor{type %s, constructor %s}; found %s %s" %
                     (decl["name"], vn, wc.get("err") or wc.get("idx"), wc.get("strings")), where,
                     sample={"decl": ctag, "writer": "Err(SerializingTransientConstructor)"})
            for br in ("v0", "vn"):
                e = ER.get(br)
                if not e or case["idx"] >= len(e["chain"]):
                    continue
                cdef = e["chain"][case["idx"]][1]
                cb = crate.bodies.get(cdef)
                okk = False
                if cb:
                    ps = [p for p in walk.walk(cb, crate) if p.outcome[0] == "return"]
                    okk = len(ps) >= 1 and all(outcome_of(p) == ("err", "DeserializingTransientConstructor") and not
                                               [c for c in p.calls() if "read_" in c[2] or "deserialize" in c[2]] for p in ps)
                    strs = {x[5] for p in ps for x in mir.walk_expr(p.outcome[1]) if x[0] == "const" and x[5]}
                    okk = okk and decl["name"] in strs and vn in strs
                R3.check(okk, ctag, "transient constructor (reader %s)" % br, "index %d must decode to "
                         "DeserializingTransientConstructor{%s, %s} without reading" % (case["idx"], decl["name"], vn), where)
            continue
        R2.check(wc.get("idx") == case["idx"] and wc.get("finish"), ctag, "writer index", "writer arm uses index %s, the "
                 "declaration order gives %d" % (wc.get("idx"), case["idx"]), where, sample={"decl": ctag, "idx": case["idx"]})
        cw = closure_writer(crate.bodies[wc["closure"]], crate) if wc.get("closure") in crate.bodies else {}
        steps = metadata_steps(crate, case["static"])
        R4.check(steps == case["meta"], ctag, "metadata " + case["static"], "static holds %s, declared %s" % (steps, case["meta"]), where)
        R6.check(cw.get("ctor") == case["ctor"] and cw.get("static") == case["static"] and cw.get("ok"), ctag,
                 "case writer constructor", "case writer uses %s(%s), required %s(%s)" %
                 (cw.get("ctor"), cw.get("static"), case["ctor"], case["static"]), where)
        R2.check(cw.get("write") == case["write"], ctag, "case writer fields", "case writes %s, declared %s" %
                 (cw.get("write"), case["write"]), where)
        declared_v = declared[vn]
        tnames = [(i, f["name"]) for i, f in enumerate(declared_v["fields"]) if f["transient"] is not None]
        caps = wc.get("captures", [])
        for i, tn in tnames:
            hit = any((x[0] == "field" and (x[2] == tn or (x[2] == str(i) and not declared_v["fields"][i]["named"])))
                      for cterm in caps for x in mir.walk_expr(cterm))
            R3.check(not hit and tn not in (cw.get("write") or []), ctag, "transient field %s" % tn,
                     "transient field %r of the variant reaches the case writer" % tn, where)
        for br, want_ctor in (("v0", "new_v0"), ("vn", "new")):
            e = ER.get(br)
            if not e or case["idx"] >= len(e["chain"]):
                continue
            cdef = e["chain"][case["idx"]][1]
            cb = crate.bodies.get(cdef)
            if not R2.check(cb is not None, ctag, "case reader closure " + br, "closure not found", where):
                continue
            RD = record_reader(cb, crate)
            for cbr, cwant in (("v0", "new_v0"), ("vn", "new")):
                b = RD.get(cbr)
                if not R2.check(b is not None and b.get("kind") == "ok", ctag, "case reader %s/%s" % (br, cbr),
                                "no successful path for the case's stored-version branch", where):
                    continue
                R2.check(b["ctor"] == cwant and b["static"] == case["static"] and b.get("version_arg", True), ctag,
                         "case reader constructor %s/%s" % (br, cbr), "case reader uses %s(%s), required %s(%s)" %
                         (b["ctor"], b["static"], cwant, case["static"]), where)
                got = [(n, k, d) for n, k, d, _, _ in b["reads"]]
                R2.check(got == case["read"], ctag, "case reader fields %s/%s" % (br, cbr), "case reads %s, declared %s" %
                         (got, case["read"]), where)
                R2.check(b.get("variant") == vn, ctag, "case builds variant %s/%s" % (br, cbr), "index %d builds variant %s" %
                         (case["idx"], b.get("variant")), where)
                _check_aggregate(R2, R3, ctag, "%s/%s" % (br, cbr), b, case["agg"], declared_v["fields"], where)


def macrolint(an, rep):
    from ..core import sub_hash
    R = rep.rule("D8", "no quote! body of desert_macro/src/lib.rs contains unreachable!/panic!/todo!/unimplemented!/assert*!/"
                       ".unwrap()/.expect()/unsafe: generated code must not be able to panic")
    src = os.path.join(REPO, "desert_macro", "src", "lib.rs")
    data = an.tool_json("macrolint-" + sub_hash("engine/declscan/src"), lambda: [DECLSCAN, "--macrolint", src])
    for q in data["quotes"]:
        R.check(not q["findings"], "desert_macro::" + q["fn"], "quote! body", "generated code contains %s" % q["findings"],
                "desert_macro/src/lib.rs:%s" % q["line"], sample={"fn": q["fn"], "clean": True})
    R.floor("quote! bodies", len(data["quotes"]), 20)
    return R

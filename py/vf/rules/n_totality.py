"""Pack N - totality: may-panic inventory (N1/N2), signed wire integers as sizes (N3), allocation taint (N4),
loop progress (N5), checked narrowing of lengths on the encode side (N6)."""
import re
from .. import mir, guards, callgraph
from ..mir import show

# ---------------------------------------------------------------------------------------------------------------
# Frozen allow-list for asserts that depend on an invariant no local rule sees.
# key: (function key, assert kind) -> (max count, reason)
ASSERT_ALLOW = {
    ("AdtDeserializer::record_field_index", "Overflow(Add)"):
        (1, "per-chunk field counter (i8): bounded by the number of fields the *reading type* declares in one chunk "
            "(documented limit 127), not by the input"),
    ("AdtSerializer<Output>::record_field_index", "Overflow(Add)"):
        (1, "per-chunk field counter (u8): bounded by the number of declared fields in one chunk (documented limit 255)"),
    ("AdtMetadata::new", "Overflow(Sub)"):
        (1, "evolution_steps.len() - 1: every caller passes at least InitialVersion (EMPTY_ADT_METADATA; derive: rule D4)"),
    ("<SliceInput as BinaryInput>::read_bytes", "Overflow(Add)"):
        (2, "pos + count after the P4 guard `count <= len - pos`"),
    ("<SliceInput as BinaryInput>::skip", "Overflow(Add)"): (1, "pos + count after the P4 guard"),
    ("<OwnedInput as BinaryInput>::read_bytes", "Overflow(Add)"): (2, "pos + count after the P4 guard"),
    ("<OwnedInput as BinaryInput>::skip", "Overflow(Add)"): (1, "pos + count after the P4 guard"),
    ("<SizeCalculator as BinaryOutput>::write_u8", "Overflow(Add)"):
        (1, "capacity: total size of one encoding cannot exceed usize::MAX bytes"),
    ("<SizeCalculator as BinaryOutput>::write_bytes", "Overflow(Add)"):
        (1, "capacity: sum of lengths of slices that exist in memory"),
    ("DeserializationContext::push_region", "Overflow(Add)"):
        (2, "current.start + region.{start,end}: regions come from InputRegion::new after a successful skip (R5), so "
            "both sums are <= current.end <= input.len()"),
    ("<DeserializationContext as BinaryInput>::read_u8", "Overflow(Add)"):
        (2, "start + pos <= end <= input.len() (region invariant R3); pos + 1 after the P4 guard start+pos < end"),
    ("<DeserializationContext as BinaryInput>::read_u8", "BoundsCheck"):
        (1, "index start+pos < end (P4 guard) and end <= input.len() (region invariant R3)"),
    ("<DeserializationContext as BinaryInput>::read_bytes", "Overflow(Add)"):
        (3, "start + pos; pos + count and start + count after the P4 guard `count <= end - start`"),
    ("<DeserializationContext as BinaryInput>::skip", "Overflow(Add)"):
        (2, "start + pos; pos + count after the P4 guard"),
    ("InputRegion::new", "Overflow(Add)"):
        (1, "start + length: called only after context.skip(length) succeeded at pos == start (R5)"),
    ("ResolvedInputRegion::unresolve", "Overflow(Sub)"):
        (2, "start - delta, end - delta: push_region builds start = delta + region.start, end = delta + region.end"),
    ("<DeduplicatedString as BinarySerializer>::serialize", "OverflowNeg"):
        (1, "-id: string ids are >= 1 (T11), only i32::MIN overflows"),
    ("StringId::next", "Overflow(Add)"): (1, "capacity: needs 2^31 distinct strings registered in one stream"),
    ("RefId::next", "Overflow(Add)"): (1, "capacity: needs 2^32 distinct references registered in one stream"),
}

# explicit panics (panic!/assert!/unreachable! expansions) that are accepted, by function
PANIC_ALLOW = {
    "AdtSerializer<Output>::new_v0": (1, "assert_eq!(metadata.version, 0): the derive uses new_v0 iff the declaration "
                                         "has no evolution steps (rule D6 certifies every corpus declaration)"),
    "AdtMetadata::new": (1, "documented limit of 255 evolution steps (type-level, not input-dependent)"),
}

# an allow-listed explicit panic that encodes a documented limit: the site must be guarded by exactly that limit
# function -> (text the guarded term must mention, least value for which the panic may be reached)
PANIC_GUARD = {
    "AdtMetadata::new": ("len", 256, "more than 255 evolution steps"),
}


def _least_reaching(cond, value):
    """least value of the unsigned term compared in `cond` for which the edge (cond == value) is taken, with the term; None if
    the condition is not a lower bound"""
    tv = guards.truth(value)
    if tv is None or not isinstance(cond, tuple) or cond[0] != "bin" or cond[1] not in ("Lt", "Le", "Gt", "Ge"):
        return None
    op, l, r = cond[1], cond[2], cond[3]
    cl, cr = guards.rng(l), guards.rng(r)
    flip = {"Lt": "Gt", "Gt": "Lt", "Le": "Ge", "Ge": "Le"}
    neg = {"Lt": "Ge", "Ge": "Lt", "Gt": "Le", "Le": "Gt"}
    if cr and cr[0] == cr[1] and not (cl and cl[0] == cl[1]):
        term, c = l, cr[0]
    elif cl and cl[0] == cl[1]:
        term, c, op = r, cl[0], flip[op]
    else:
        return None
    if not tv:
        op = neg[op]
    if op == "Gt":
        return term, c + 1
    if op == "Ge":
        return term, c
    return None


# Dispositions of external callees documented as panicking (rustdoc `# Panics`).
CAPACITY = "capacity"      # panics only when an allocation exceeds isize::MAX / a counter exceeds usize::MAX
GUARD = "needs-guard"      # each call site must be discharged
RUNTIME_TOTAL = "total"    # the documented panic cannot happen at run time
MAYPANIC = {
    "Vec<T, A>::push": (CAPACITY, "capacity overflow only"),
    "Vec<T, A>::extend_from_slice": (CAPACITY, "capacity overflow only"),
    "Vec<T, A>::reserve": (CAPACITY, "capacity overflow only"),
    "BufMut::put_u8": (CAPACITY, "BytesMut grows; panics only on capacity overflow"),
    "BufMut::put_slice": (CAPACITY, "BytesMut grows; panics only on capacity overflow"),
    "<BytesMut as BufMut>::put_slice": (CAPACITY, "BytesMut grows; panics only on capacity overflow"),
    "<BytesMut as BufMut>::put_u8": (CAPACITY, "BytesMut grows; panics only on capacity overflow"),
    "Iterator::enumerate": (CAPACITY, "index overflow after usize::MAX items"),
    "<Enumerate<I> as Iterator>::next": (CAPACITY, "index overflow after usize::MAX items"),
    "<T as ToString>::to_string": (RUNTIME_TOTAL, "the blanket impl panics only if the receiver's Display returns Err: the "
                                   "receivers are str, integers and BigDecimal, whose Display is infallible (third-party trusted)"),
    "*const T::as_ref": (RUNTIME_TOTAL, "documented panic is during const evaluation only (unsafety handled by pack U)"),
    "Vec<T>::with_capacity": (GUARD, "argument must be bounded (N4)"),
    "Vec<T, A>::with_capacity_in": (GUARD, "argument must be bounded (N4)"),
    "BytesMut::with_capacity": (GUARD, "argument must be bounded (N4)"),
    "<Vec<T, A> as Index<I>>::index": (GUARD, "index must be in bounds"),
    "<Vec<T, A> as IndexMut<I>>::index_mut": (GUARD, "index must be in bounds"),
    "<[T] as Index<I>>::index": (GUARD, "index must be in bounds"),
    "<[T] as IndexMut<I>>::index_mut": (GUARD, "index must be in bounds"),
    "Option<T>::unwrap": (GUARD, "must be Some"),
    "Option<T>::expect": (GUARD, "must be Some"),
    "Result<T, E>::unwrap": (GUARD, "must be Ok"),
    "Result<T, E>::expect": (GUARD, "must be Ok"),
    "char::encode_utf16": (GUARD, "destination must hold 2 units"),
    "Vec<T, A>::drain": (GUARD, "range must lie inside the vector"),
}

# Call sites of needs-guard callees that rest on an invariant: (function key, callee key) -> (max count, reason)
SITE_ALLOW = {
    ("DeserializationContext::pop_region", "Option<T>::unwrap"):
        (1, "region_stack.pop(): pop_region is only called after a push_region on the same path (rule R1)"),
    ("SerializationContext<Output>::pop_buffer", "Option<T>::unwrap"):
        (1, "buffer_stack.pop(): pop_buffer is only called after push_buffer on the same path (rule R2)"),
    ("AdtSerializer<Output>::write_field", "Option<T>::unwrap"):
        (1, "buffers[chunk].take(): every slot is Some between write_field calls; it is restored before return (R2)"),
    ("AdtSerializer<Output>::write_evolution_header", "Option<T>::unwrap"):
        (2, "buffers[v].as_ref(): slots are Some outside write_field (R2)"),
    ("AdtSerializer<Output>::write_ordered_chunks", "Option<T>::unwrap"):
        (1, "buffers[..].as_ref(): slots are Some outside write_field (R2)"),
    ("AdtSerializer<Output>::finish", "Option<T>::unwrap"):
        (1, "buffers[..].as_ref() while writing the chunks: slots are Some outside write_field (R2)"),
    ("AdtSerializer<Output>::write_field", "<Vec<T, A> as Index<I>>::index"): (0, ""),
    ("AdtSerializer<Output>::write_field", "<Vec<T, A> as IndexMut<I>>::index_mut"):
        (2, "buffers[chunk]: chunk = field_generations[name] <= metadata.version and buffers has version+1 slots "
            "(both derive from the same AdtMetadata, T14)"),
    ("AdtSerializer<Output>::write_evolution_header", "<Vec<T, A> as Index<I>>::index"):
        (2, "buffers[v]: v enumerates evolution_steps, buffers has one slot per step (new)"),
    ("AdtDeserializer::record_field_index", "<Vec<T, A> as IndexMut<I>>::index_mut"):
        (1, "last_index_per_chunk[chunk]: chunk <= metadata.version, vector has version+1 entries (new/new_v0)"),
    ("AdtDeserializer::read_field", "<Vec<T, A> as Index<I>>::index"):
        (1, "inputs[chunk]: reached only when stored_version >= chunk (T1 guard) and inputs has stored_version+1 "
            "entries (T4: one push per header step)"),
    ("AdtDeserializer::read_field", "<Vec<T, A> as IndexMut<I>>::index_mut"): (1, "same index as the push_region above"),
    ("AdtDeserializer::read_optional_field", "<Vec<T, A> as Index<I>>::index"):
        (1, "inputs[chunk]: stored_version >= chunk (T2 guard), inputs has stored_version+1 entries (T4)"),
    ("AdtDeserializer::read_optional_field", "<Vec<T, A> as IndexMut<I>>::index_mut"): (1, "same index as above"),
    ("AdtDeserializer::read_constructor", "<Vec<T, A> as Index<I>>::index"): (1, "inputs[0] under the non-empty guard"),
    ("AdtDeserializer::read_constructor", "<Vec<T, A> as IndexMut<I>>::index_mut"): (1, "inputs[0] under the non-empty guard"),
    ("AdtDeserializer::read_or_get_constructor_idx", "<Vec<T, A> as Index<I>>::index"): (1, "inputs[0] under the non-empty guard"),
    ("AdtDeserializer::read_or_get_constructor_idx", "<Vec<T, A> as IndexMut<I>>::index_mut"): (1, "inputs[0] under the non-empty guard"),
    ("<char as BinaryDeserializer>::deserialize", "<Vec<T, A> as Index<I>>::index"):
        (1, "decode_utf16 of exactly one unit yields exactly one item, so the collected Vec has length 1"),
    ("<DeserializationContext as BinaryInput>::read_bytes", "<[T] as Index<I>>::index"):
        (1, "input[start..start+count]: start+count <= end (P4 guard) <= input.len() (R3)"),
    ("<SliceInput as BinaryInput>::read_bytes", "<[T] as Index<I>>::index"):
        (1, "data[pos..pos+count] after the P4 guard"),
    ("<OwnedInput as BinaryInput>::read_bytes", "<[T] as Index<I>>::index"):
        (1, "data[pos..pos+count] after the P4 guard"),
    ("<OwnedInput as BinaryInput>::read_bytes", "<Vec<T, A> as Index<I>>::index"):
        (1, "data[pos..pos+count] after the P4 guard"),
    ("AdtDeserializer::new", "Vec<T>::with_capacity"):
        (1, "capacity = number of header steps just read = stored_version + 1 <= 256 (loop over 0..=stored_version: u8)"),
    ("<OwnedInput as BinaryInput>::read_u8", "<Vec<T, A> as Index<I>>::index"):
        (1, "data[pos] after the guard pos < len (P4)"),
}


def _owner_fn(core, cg):
    """key under which the sites of a function are accounted: a private, non-anchor helper with a single calling function
    is accounted to that caller (helper extraction must not change the verdict)"""
    from ..walk import ANCHORS
    callers = {}
    for f, es in cg.edges.items():
        for e in es:
            callers.setdefault(e, set()).add(f)

    def owner(b, depth=0):
        if depth > 4 or b.key in ANCHORS or b.vis in (None, "Public") or (b.impl and b.impl.get("trait")) or b.in_trait:
            if b.kind == "Closure":
                root = core.bodies.get(b.raw.get("root"))
                return owner(root, depth + 1) if root is not None and depth <= 4 else b.key
            return b.key
        cs = {c for c in callers.get(b.defn, set()) if c != b.defn}
        roots = {core.bodies[c].raw.get("root") if core.bodies[c].kind == "Closure" else c for c in cs}
        if len(roots) == 1:
            (c,) = tuple(roots)
            if c in core.bodies:
                return owner(core.bodies[c], depth + 1)
        return b.key

    def users(b, depth=0, seen=None):
        """accounting functions of all (transitive) callers of a private non-anchor helper; empty if `b` is not one"""
        seen = seen if seen is not None else set()
        if b.defn in seen or depth > 4:
            return set()
        seen.add(b.defn)
        if b.key in ANCHORS or b.vis in (None, "Public") or (b.impl and b.impl.get("trait")) or b.in_trait:
            return set()
        out = set()
        for c in callers.get(b.defn, set()):
            cb = core.bodies[c]
            if cb.kind == "Closure":
                cb = core.bodies.get(cb.raw.get("root"), cb)
            sub = users(cb, depth + 1, seen)
            out |= sub if sub else {owner(cb)}
        return out
    return owner, users


def _read_bytes_count(ln):
    """`len(payload of read_bytes(_, n)?)` -> n"""
    ln = mir.strip_refs(ln)
    if not (isinstance(ln, tuple) and ln[0] == "len"):
        return None
    x = mir.strip_refs(ln[1])
    for _ in range(8):
        if not isinstance(x, tuple):
            return None
        if x[0] == "field" and isinstance(x[1], tuple) and x[1][0] == "variant" and x[1][2] in ("Continue", "Ok"):
            x = mir.strip_refs(x[1][1])
        elif x[0] == "call" and x[1] == "<Result<T, E> as Try>::branch" and x[3]:
            x = mir.strip_refs(x[3][0])
        elif x[0] == "call" and (x[1] == "BinaryInput::read_bytes" or x[1].endswith(" as BinaryInput>::read_bytes")) and len(x[3]) == 2:
            return x[3][1]
        else:
            return None
    return None


def _operand_ty(o):
    if "const" in o:
        return o["const"]["ty"]["s"]
    p = mir.op_place(o)
    return p["ty"]["s"] if p else None


def discharge_assert(body, ex, facts, bb, t):
    """Return a reason string when the assert provably holds, else None."""
    kind = t["kind"]
    ops = t["ops"]
    if kind == "OverflowNeg" and ops:
        x = show(ex.operand(ops[0]))
        if "State::store_string(" in x and "StringAlreadyStored" in x and x.rstrip(")").endswith(".id.0"):
            return "negation of a string id handed out by State::store_string: ids start at 1 and grow by 1 (T11), i32::MIN is not reachable"
    exprs = [ex.operand(o) for o in ops]
    if kind in ("DivisionByZero", "RemainderByZero"):
        # `x / 2`: the asserted condition is `divisor == 0` being false; a non-zero constant divisor never trips it
        c = mir.strip_refs(ex.operand(t["cond"]))
        if isinstance(c, tuple) and c[0] == "bin" and c[1] == "Eq":
            a_, b_ = guards.rng(c[2]), guards.rng(c[3])
            if a_ and b_ and a_[0] == a_[1] and b_[0] == b_[1] and a_[0] != b_[0]:
                return "constant non-zero divisor"
            if (a_ and a_[0] > 0 and guards.rng(c[3]) == (0, 0)) or (b_ and b_[0] > 0 and guards.rng(c[2]) == (0, 0)):
                return "divisor is at least 1"
    atoms = []
    for cond, val, d in facts.get(bb, ()):
        for a in guards.bool_atoms(cond, val):
            atoms.append((a, d))
    if kind.startswith("Overflow("):
        op = kind[9:-1]
        ty = _operand_ty(ops[0])
        tr = guards.INT_RANGES.get(ty)
        a, b = guards.rng(exprs[0]), guards.rng(exprs[1])
        if op in ("Shl", "Shr"):
            width = {"u8": 8, "i8": 8, "u16": 16, "i16": 16, "u32": 32, "i32": 32, "u64": 64, "i64": 64,
                     "usize": 64, "isize": 64, "u128": 128, "i128": 128}.get(ty)
            if b and width and 0 <= b[0] and b[1] < width:
                return "shift amount %s < %d bits" % (b[1], width)
            return None
        if tr and a and b:
            if op == "Add" and a[1] + b[1] <= tr[1] and a[0] + b[0] >= tr[0]:
                return "interval [%d,%d]+[%d,%d] fits %s" % (a[0], a[1], b[0], b[1], ty)
            if op == "Sub" and a[0] - b[1] >= tr[0] and a[1] - b[0] <= tr[1]:
                return "interval fits %s" % ty
            if op == "Mul" and a[0] >= 0 and b[0] >= 0 and a[1] * b[1] <= tr[1]:
                return "interval fits %s" % ty
        # x + 1 where a dominating guard gives x < y
        if op == "Add" and b == (1, 1):
            for (aop, x, y), d in atoms:
                if (aop == "Lt" and guards.same(x, exprs[0])) or (aop == "Gt" and guards.same(y, exprs[0])):
                    if not (guards.fields_read(exprs[0]) & guards.stores_between(body, d, bb)):
                        return "x + 1 under dominating guard x < y"
        # x - 1 where a dominating guard gives x != 0 (unsigned)
        if op == "Sub" and b == (1, 1) and tr and tr[0] == 0:
            if guards.implies_nonzero([a_ for a_, _ in atoms], exprs[0]):
                ds = [d for (a_, d) in atoms]
                if not any(guards.fields_read(exprs[0]) & guards.stores_between(body, d, bb) for d in ds):
                    return "x - 1 under dominating guard x != 0"
        return None
    if kind == "OverflowNeg":
        ty = _operand_ty(ops[0])
        tr = guards.INT_RANGES.get(ty)
        a = guards.rng(exprs[0])
        if tr and a and a[0] > tr[0]:
            return "operand interval [%d,%d] excludes %s::MIN" % (a[0], a[1], ty)
        return None
    if kind == "BoundsCheck":
        ln, idx = exprs
        # the slice a successful BinaryInput::read_bytes(n) hands back is input[cursor .. cursor + n] (rule P4, all three
        # sources): its length is n
        n = _read_bytes_count(ln)
        if n is not None:
            rn, ri = guards.rng(n), guards.rng(idx)
            if rn and ri and rn[0] == rn[1] and 0 <= ri[0] and ri[1] < rn[0]:
                return "index %d..%d < %d = length of the slice returned by read_bytes(%d) (P4)" % (ri[0], ri[1], rn[0], rn[0])
        for (aop, x, y), d in atoms:
            if guards.implies_lt([(aop, x, y)], idx, ln):
                if not ((guards.fields_read(idx) | guards.fields_read(ln)) & guards.stores_between(body, d, bb)):
                    return "index < len by dominating guard"
            # len == k (constant) and idx constant < k
            r = guards.rng(idx)
            if aop == "Eq" and r and r[0] == r[1]:
                for p, q in ((x, y), (y, x)):
                    rq = guards.rng(q)
                    if guards.same(p, ln) and rq and rq[0] == rq[1] and r[1] < rq[0]:
                        return "constant index %d < len == %d by dominating guard" % (r[1], rq[0])
        return None
    if kind in ("DivisionByZero", "RemainderByZero"):
        a = guards.rng(exprs[0])
        if a and (a[0] > 0 or a[1] < 0):
            return "divisor interval excludes 0"
        return None
    return None


def _site_discharge(body, ex, facts, bb, t, info):
    """Local discharge of a needs-guard call site; returns reason or None."""
    key = info["key"]
    args = [ex.operand(a) for a in t["args"]]
    atoms = []
    for cond, val, d in facts.get(bb, ()):
        atoms.extend(guards.bool_atoms(cond, val))
    if key in ("Vec<T>::with_capacity", "BytesMut::with_capacity", "Vec<T, A>::with_capacity_in"):
        why = bounded_size(args[0])
        if why is None and _held_by_caller(args[0]):
            why = "proportional to data the caller already holds in memory (no value read from the input)"
        return why
    if key == "char::encode_utf16":
        for x in mir.walk_expr(args[1]):
            if x[0] == "cast" and x[1] == "Unsize" and ("[u16; 2]" in x[2] or "[u16; 2_usize]" in x[2]):
                return "destination is a [u16; 2]"
        return None
    if key == "Vec<T, A>::drain":
        r_ = mir.strip_refs(args[1]) if len(args) > 1 else None
        if isinstance(r_, tuple) and r_[0] == "agg" and r_[2] and r_[2].endswith("RangeFull"):
            return "full range"
        return None
    if "Index" in key:
        # v[const] under a dominating `!v.is_empty()` / len comparison; range-full indexing
        idx = args[1]
        base = args[0]
        r = guards.rng(idx)
        if idx[0] == "agg" and idx[2] and idx[2].endswith("RangeFull"):
            return "full range"
        for op, x, y in atoms:
            if r and r[0] == r[1]:
                # len(base) != 0 / > c
                for p, q in ((x, y), (y, x)):
                    if guards.same(p, ("len", base)):
                        rq = guards.rng(q)
                        if rq and rq[0] == rq[1]:
                            if op == "Ne" and rq[0] == 0 and r[0] == 0:
                                return "index 0 under dominating non-empty guard"
                            if op == "Gt" and p is x and r[0] <= rq[0]:
                                return "constant index under dominating len guard"
        return None
    return None


def _held_by_caller(e):
    """the size is computed (by +, -, /, >>, min and constants, never by multiplication) from the length of a value that is
    an argument of the function - memory the caller already holds - and from nothing read from the input"""
    e = mir.strip_refs(e)
    if not isinstance(e, tuple):
        return False
    if e[0] == "const":
        return e[2] is not None
    if e[0] == "len" or (e[0] == "call" and (e[1] in guards.PURE_LEN or e[1].endswith("::len")) and e[3]):
        inner = mir.strip_refs(e[1] if e[0] == "len" else e[3][0])
        while isinstance(inner, tuple) and inner[0] in ("field", "deref", "ref", "cast"):
            inner = mir.strip_refs(inner[1] if inner[0] != "cast" else inner[4])
        return isinstance(inner, tuple) and inner[0] == "arg"
    if e[0] == "bin" and e[1] in ("Add", "Sub", "Div", "Shr", "AddWithOverflow", "SubWithOverflow"):
        return _held_by_caller(e[2]) and _held_by_caller(e[3])
    if e[0] == "call" and e[1] in ("Ord::min", "min", "usize::saturating_sub", "usize::saturating_add") and len(e[3]) == 2:
        return _held_by_caller(e[3][0]) and _held_by_caller(e[3][1])
    if e[0] == "cast" and e[1] == "IntToInt":
        return _held_by_caller(e[4])
    return False


def bounded_size(e):
    """A size expression that cannot be driven arbitrarily high by the input: constant, <=16-bit origin (+const),
    min() with a constant, or a const generic parameter."""
    r = guards.rng(e)
    if r and r[1] <= (1 << 17):
        return "size bounded by %d" % r[1]
    for x in mir.walk_expr(e):
        if x[0] == "const" and x[2] is None and x[3] and "/#" in x[3]:
            return "const generic parameter"
    if e[0] == "const" and e[2] is None:
        return "compile-time constant %s" % e[3]
    return None


# ---------------------------------------------------------------------------------------------------------------
def may_panic(an, rep, side, rule_id, min_roots=90, min_reach=100, crate=None, roots=None):
    """N1 (side='decode') / N2 (side='encode')."""
    core = crate or an.core()
    cg = callgraph.CallGraph(core)
    if roots is None:
        roots = callgraph.decode_roots(core) if side == "decode" else callgraph.encode_roots(core)
    paths = cg.reach(roots)
    R = rep.rule(rule_id, "every may-panic site (MIR assert, panic call, callee documented `# Panics`) reachable from "
                          "Roots(%s) is discharged: constant/interval, dominating guard, paired typestate, or a frozen "
                          "allow-list entry with its reason" % side)
    R.floor("roots(%s)" % side, len(roots), min_roots)
    R.floor("reachable functions", len(paths), min_reach)
    counts = {}
    undisposed = {}
    n_assert = n_panic = n_ext = 0
    from ..layers import primitive_unit, varint_unit
    unit = primitive_unit(core) if crate is None else set()
    vunit = varint_unit(core) if crate is None else set()
    n_vunit = 0
    owner, owner_users = _owner_fn(core, cg)
    n_unit = 0
    for defn, path in sorted(paths.items()):
        b = core.bodies[defn]
        ex = mir.Expr(b, core)
        facts = guards.edge_conditions(b, ex)
        in_unit = defn in unit
        for bb in sorted(mir.reachable(b)):
            blk = b.blocks[bb]
            if blk.get("cleanup"):
                continue
            t = blk["term"]
            if in_unit and (t["k"] == "assert" or (t["k"] == "call" and "Index" in mir.callee_key(t["callee"]))):
                # arithmetic and indexing of the primitive layer (the three sources + region bookkeeping and the private
                # helpers only they use) are discharged as a unit by P4 (overflow-safe guard, cursor update, returned range)
                # and R3 (coordinate systems)
                n_unit += 1
                R.ok(sample={"fn": b.key, "primitive_layer_site": t.get("kind") or mir.callee_key(t["callee"]), "discharged_by": "P4 + R3"})
                continue
            if defn in vunit and (t["k"] == "assert" or (t["k"] == "call" and "Index" in mir.callee_key(t["callee"]))):
                # the varint routines are interpreted exhaustively by pack B (every path, concrete indices and shift
                # amounts): B0 fails closed on any out-of-range index / shift, so their asserts are discharged there
                why = discharge_assert(b, ex, facts, bb, t) if t["k"] == "assert" else None
                n_vunit += 1
                R.ok(sample={"fn": b.key, "varint_site": t.get("kind") or mir.callee_key(t["callee"]),
                             "discharged_by": why or "exhaustive bit-level interpretation (B0-B6)"})
                continue
            if t["k"] == "assert":
                n_assert += 1
                why = discharge_assert(b, ex, facts, bb, t)
                if why:
                    R.ok(sample={"fn": b.key, "assert": t["kind"], "operands": [show(ex.operand(o)) for o in t["ops"]],
                                 "discharged_by": why})
                    continue
                k = (owner(b), t["kind"])
                counts.setdefault(k, []).append((b, bb, t, path))
            elif t["k"] == "call":
                info = mir.callee_info(t["callee"])
                if mir.is_panic_callee(info["def"]):
                    n_panic += 1
                    counts.setdefault((owner(b), "panic"), []).append((b, bb, t, path))
                    continue
                if info["local"] or info["def"] in core.bodies:
                    continue
                disp = MAYPANIC.get(info["key"])
                if info["doc"] == "panics" or disp:
                    n_ext += 1
                    if not disp:
                        R.fail(b.key, "call " + info["key"], "callee is documented as panicking (`# Panics`) and has no "
                               "disposition in the may-panic table", mir.loc(b, bb), {"call_path": path})
                        continue
                    if disp[0] in (CAPACITY, RUNTIME_TOTAL):
                        R.ok()
                        continue
                    why = _site_discharge(b, ex, facts, bb, t, info)
                    if why:
                        R.ok(sample={"fn": b.key, "call": info["key"], "discharged_by": why})
                        continue
                    counts.setdefault((owner(b), info["key"]), []).append((b, bb, t, path))
    INDEX_KINDS = ("BoundsCheck", "<Vec<T, A> as Index<I>>::index", "<[T] as Index<I>>::index", "<Vec<T, A> as IndexMut<I>>::index_mut")

    def lookup(fk, kind):
        if kind == "panic":
            return PANIC_ALLOW.get(fk)
        if kind in INDEX_KINDS:
            # indexing a Vec (a call of Index::index) and indexing the same data as a slice (a BoundsCheck assert) are the
            # same site in two spellings
            for k2 in (kind,) + INDEX_KINDS:
                e = ASSERT_ALLOW.get((fk, k2)) or SITE_ALLOW.get((fk, k2))
                if e:
                    return e
            return None
        if kind.startswith(("Overflow", "Bounds", "Division", "Remainder")):
            return ASSERT_ALLOW.get((fk, kind))
        return SITE_ALLOW.get((fk, kind))

    for (fk, kind), sites in sorted(counts.items(), key=lambda kv: kv[0]):
        allow = lookup(fk, kind)
        if allow is None:
            # a private helper shared by several functions: admitted when every function that uses it has the entry
            users = owner_users(sites[0][0])
            if users:
                ents = [lookup(u, kind) for u in users]
                if all(e is not None and e[0] >= 1 for e in ents):
                    allow = (max(e[0] for e in ents), "shared helper of %s: %s" % (sorted(users), ents[0][1]))
        if allow and len(sites) <= allow[0]:
            for (b, bb, t, path) in sites:
                g = PANIC_GUARD.get(fk) if kind == "panic" else None
                if g:
                    fs = guards.edge_conditions(b, mir.Expr(b)).get(bb, [])
                    least = [x for x in (_least_reaching(c, v) for c, v, _ in fs) if x and g[0] in show(x[0])]
                    R.check(bool(least) and max(x[1] for x in least) == g[1], fk, "guard of the documented panic",
                            "the documented panic (%s) is reachable from %s on, not from %d on" %
                            (g[2], max(x[1] for x in least) if least else "an unrecognised condition", g[1]), mir.loc(b, bb),
                            sample={"fn": fk, "panic_guard": "%s >= %d" % (g[0], g[1])})
                R.ok(sample={"fn": fk, "site": kind, "allow_listed": allow[1]})
            continue
        for (b, bb, t, path) in sites:
            ex = mir.Expr(b)
            if t["k"] == "assert":
                what = "assert %s on %s is not discharged" % (t["kind"], [show(ex.operand(o)) for o in t["ops"]])
            elif kind == "panic":
                what = "explicit panic (%s) reachable from the %s entry points" % (mir.callee_key(t["callee"]), side)
            else:
                what = "call of %s (%s) is not discharged" % (kind, MAYPANIC[kind][1])
            if allow:
                what += " (allow-list admits %d such site(s) in this function, found %d)" % (allow[0], len(sites))
            R.fail(fk, kind, what, mir.loc(b, bb), {"call_path_from_root": path})
    R.count("asserts", n_assert)
    R.count("primitive_layer_sites", n_unit)
    R.count("varint_sites", n_vunit)
    R.count("panic_calls", n_panic)
    R.count("documented_may_panic_calls", n_ext)
    return R


# ---------------------------------------------------------------------------------------------------------------
READ_SOURCES = ("BinaryInput::read_", "<DeserializationContext as BinaryInput>::read_", "BinaryDeserializer::deserialize",
                "<SliceInput as BinaryInput>::read_", "<OwnedInput as BinaryInput>::read_")


def is_wire_value(e):
    """expression data-dependent on a value read from the input"""
    for x in mir.walk_expr(e):
        if x[0] == "call" and (x[1].startswith(READ_SOURCES) or x[1].endswith("as BinaryDeserializer>::deserialize")):
            return True
    return False


def _decode_bodies(an, crate=None, roots=None):
    core = crate or an.core()
    cg = callgraph.CallGraph(core)
    roots = roots if roots is not None else callgraph.decode_roots(core)
    paths = cg.reach(roots)
    return core, [(core.bodies[d], p) for d, p in sorted(paths.items())]


def _encode_bodies(an):
    core = an.core()
    cg = callgraph.CallGraph(core)
    roots = callgraph.encode_roots(core)
    paths = cg.reach(roots)
    return core, [(core.bodies[d], p) for d, p in sorted(paths.items())]


def sign_loss_casts(an, rep, crate=None, roots=None, floor=True):
    """N3: no signed -> unsigned-size cast of a value in decode-reachable code unless non-negativity is established."""
    R = rep.rule("N3", "no IntToInt cast from a signed integer to usize/u64/u32 in decode-reachable code unless the "
                       "operand's interval is non-negative or a dominating guard establishes it; checked conversions "
                       "(try_from/try_into) are the accepted idiom")
    core, bodies = _decode_bodies(an, crate, roots)
    n = 0
    for b, path in bodies:
        ex = mir.Expr(b)
        facts = None
        for bb in sorted(mir.reachable(b)):
            blk = b.blocks[bb]
            if blk.get("cleanup"):
                continue
            for si, st in enumerate(blk["stmts"]):
                if st["k"] != "assign" or st["rv"]["rv"] != "cast" or st["rv"]["kind"] != "IntToInt":
                    continue
                fr, to = st["rv"]["from"]["s"], st["rv"]["to"]["s"]
                if fr not in ("i8", "i16", "i32", "i64", "i128", "isize") or to not in ("usize", "u64", "u32", "u128"):
                    continue
                if to == "u32" and fr == "i32" and not False:
                    pass
                n += 1
                x = ex.operand(st["rv"]["x"])
                r = guards.rng(x)
                if r and r[0] >= 0:
                    R.ok(sample={"fn": b.key, "cast": "%s as %s" % (show(x), to), "discharged_by": "interval >= 0"})
                    continue
                if facts is None:
                    facts = guards.edge_conditions(b, ex)
                atoms = []
                for cond, val, d in facts.get(bb, ()):
                    atoms.extend(guards.bool_atoms(cond, val))
                if guards.implies_nonneg(atoms, x):
                    R.ok(sample={"fn": b.key, "cast": "%s as %s" % (show(x), to), "discharged_by": "dominating guard >= 0"})
                    continue
                # zig-zag decoding and bit reinterpretations do not produce sizes: accepted only when the result
                # is never used as a size: conservatively accept casts inside the varint primitive itself
                from ..layers import varint_unit, VARINT_KEYS
                if b.key == "BinaryInput::read_var_i32" or (b.defn in varint_unit(core) and b.key not in VARINT_KEYS):
                    # zig-zag decoding: a bit reinterpretation inside the varint unit, decided bit-exactly by pack B
                    R.ok()
                    continue
                # the result of the cast must not reach a size position (read_bytes/skip/with_capacity/index/loop bound)
                R.fail(b.key, "cast %s as %s" % (fr, to), "signed value %s is reinterpreted as %s without a "
                       "non-negativity guard or checked conversion" % (show(x), to), mir.loc(b, bb, si),
                       {"call_path_from_root": path})
    R.count("signed_to_unsigned_casts", n)
    return R


SIZE_SINKS = ("Vec<T>::with_capacity", "Vec<T, A>::with_capacity_in", "Vec<T, A>::reserve", "Vec<T, A>::reserve_exact",
              "Vec<T, A>::resize", "BytesMut::with_capacity", "BytesMut::reserve", "String::with_capacity",
              "from_elem", "[T]::repeat", "str::repeat", "VecDeque<T>::with_capacity", "HashMap<K, V>::with_capacity",
              "HashMap<K, V, S>::with_capacity_and_hasher", "HashSet<T>::with_capacity", "Vec<T, A>::resize_with")
SIZE_ARG = {"from_elem": 1, "Vec<T, A>::reserve": 1, "Vec<T, A>::reserve_exact": 1, "Vec<T, A>::resize": 1,
            "BytesMut::reserve": 1, "[T]::repeat": 1, "str::repeat": 1, "Vec<T, A>::resize_with": 1}


def alloc_taint(an, rep, crate=None, roots=None, floor=True):
    """N4: a size read from the wire reaches an allocation-size position only through a sanitiser."""
    R = rep.rule("N4", "every allocation-size argument (with_capacity, reserve, resize, vec![_; n], repeat) in "
                       "decode-reachable code is bounded: constant, <=16-bit origin, min() with a constant, a const "
                       "generic, or not derived from the input")
    core, bodies = _decode_bodies(an, crate, roots)
    n = 0
    for b, path in bodies:
        ex = None
        for bb, t, info in mir.calls(b):
            if info["key"] not in SIZE_SINKS:
                continue
            n += 1
            ex = ex or mir.Expr(b, core)
            arg = ex.operand(t["args"][SIZE_ARG.get(info["key"], 0)])
            why = bounded_size(arg)
            if why:
                R.ok(sample={"fn": b.key, "sink": info["key"], "size": show(arg), "discharged_by": why})
            elif not is_wire_value(arg) and not any(x[0] in ("arg", "phi") for x in mir.walk_expr(arg)):
                R.ok(sample={"fn": b.key, "sink": info["key"], "size": show(arg), "discharged_by": "not input-derived"})
            elif (b.key, info["key"]) in SITE_ALLOW and SITE_ALLOW[(b.key, info["key"])][0] >= 1 and not is_wire_value(arg):
                R.ok(sample={"fn": b.key, "sink": info["key"], "allow_listed": SITE_ALLOW[(b.key, info["key"])][1]})
            else:
                R.fail(b.key, "size argument of " + info["key"], "allocation sized by %s, which is not bounded by a "
                       "sanitiser" % show(arg), mir.loc(b, bb), {"call_path_from_root": path})
    if floor:
        R.floor("allocation-size sinks in decode-reachable code", n, 2)
    return R


def loops_progress(an, rep):
    """N5: every natural loop in decode-reachable code is of an accepted kind."""
    R = rep.rule("N5", "every loop in decode-reachable local code iterates over an in-memory collection, a range with a "
                       "<=16-bit-origin bound, or the sequence iterator (which reads input or counts down a 31-bit "
                       "count on every step)")
    core, bodies = _decode_bodies(an)
    n = 0
    for b, path in bodies:
        lps = mir.loops(b)
        if not lps:
            continue
        ex = mir.Expr(b)
        for header, blocks in sorted(lps.items()):
            n += 1
            # the loop must be driven by an Iterator::next call inside the loop
            nexts = []
            for bb in sorted(blocks):
                t = b.blocks[bb]["term"]
                if t["k"] == "call":
                    info = mir.callee_info(t["callee"])
                    if info["base_key"] == "Iterator::next" or info["key"].endswith("as Iterator>::next"):
                        nexts.append((bb, t, info))
            if not nexts:
                why = _len_counted_loop(b, header, blocks, ex)
                if why:
                    R.ok(sample={"fn": b.key, "loop_driven_by": why})
                    continue
                R.fail(b.key, "loop", "loop without an iterator driving it (cannot establish progress)",
                       mir.loc(b, header), {"call_path_from_root": path})
                continue
            okk = True
            for bb, t, info in nexts:
                self_ty = info["targs"][0]["s"] if info["targs"] else "?"
                kind = classify_iter(self_ty)
                if kind is None:
                    okk = False
                    R.fail(b.key, "loop over " + mir.short(self_ty), "iterator type is not in the accepted list "
                           "(in-memory collection / bounded range / sequence reader)", mir.loc(b, bb),
                           {"call_path_from_root": path})
                elif kind == "range":
                    # bound must be small-origin
                    src = ex.operand(t["args"][0])
                    bounded = False
                    for x in mir.walk_expr(src):
                        if x[0] == "call" and x[1].startswith("RangeInclusive<Idx>::new"):
                            r = guards.rng(x[3][1])
                            bounded = bool(r and r[1] <= 65536)
                    if not bounded:
                        n_items = guards._iter_count(src)
                        bounded = n_items is not None and n_items <= 65537
                    if not bounded and not re.search(r"Range(Inclusive)?<u(8|16)>", self_ty):
                        okk = False
                        R.fail(b.key, "range loop", "range bound is not of <=16-bit origin", mir.loc(b, bb),
                               {"call_path_from_root": path})
            if okk:
                R.ok(sample={"fn": b.key, "loop_driven_by": [mir.short(i["targs"][0]["s"]) for _, _, i in nexts if i["targs"]]})
    R.floor("loops in decode-reachable code", n, 1)
    return R


def _len_counted_loop(b, header, blocks, ex):
    """`while v.len() < n { .. v.push(x) .. }` with a loop-invariant bounded n: the loop is left when the length reaches n and
    every way round the loop pushes onto v, so it runs at most n times"""
    exits = []
    for bb in blocks:
        t = b.blocks[bb]["term"]
        if t["k"] == "switch":
            tg = [x for _, x in t["targets"]] + [t["otherwise"]]
            if any(x not in blocks for x in tg) and any(x in blocks for x in tg):
                exits.append((bb, t))
    for bb, t in exits:
        c = mir.strip_refs(ex.operand(t["op"]))
        if not (isinstance(c, tuple) and c[0] == "bin" and c[1] in ("Lt", "Gt", "Ne", "Le", "Ge")):
            continue
        l, r = (c[2], c[3]) if c[1] in ("Lt", "Ne", "Le") else (c[3], c[2])
        ls = mir.strip_refs(l)
        if not (ls[0] == "len" or (ls[0] == "call" and (ls[1] in guards.PURE_LEN or ls[1].endswith("::len")))):
            continue
        vec = guards.norm(ls[1] if ls[0] == "len" else ls[3][0])
        bound = guards.rng(r)
        if not bound or bound[1] > 65537:
            continue
        pushes = set()
        for b2 in blocks:
            t2 = b.blocks[b2]["term"]
            if t2["k"] == "call":
                info = mir.callee_info(t2["callee"])
                if info["key"] in ("Vec<T, A>::push",) and guards.norm(ex.operand(t2["args"][0])) == vec:
                    pushes.add(b2)
        if not pushes:
            continue
        # every cycle through the header passes a push: without the push blocks the header cannot reach itself
        succ = mir.succs(b)
        seen, todo = set(), [x for x in succ[header] if x in blocks]
        back = False
        while todo:
            x = todo.pop()
            if x in seen or x in pushes or b.blocks[x].get("cleanup"):
                continue
            seen.add(x)
            if x == header:
                back = True
                break
            todo.extend(y for y in succ[x] if y in blocks)
        if not back:
            return "length of the vector it pushes onto, bounded by %d" % bound[1]
    return None


ACCEPTED_ITERS = ("core::array::iter::IntoIter<", "core::slice::iter::Iter<", "core::slice::iter::IterMut<", "alloc::vec::into_iter::IntoIter<",
                  "alloc::vec::drain::Drain<", "core::option::IntoIter<", "core::option::Iter<",
                  "alloc::collections::btree::map::Iter<", "alloc::collections::btree::map::IntoIter<",
                  "alloc::collections::btree::set::Iter<", "std::collections::hash::map::Iter<", "hashbrown::map::Iter<",
                  "core::str::iter::Chars<", "core::str::iter::Bytes<",
                  "desert_core::deserializer::DeserializerIterator<")
# adaptors that yield at most as many items as their (first) source
SHRINKING_ADAPTORS = ("core::iter::adapters::enumerate::Enumerate<", "core::iter::adapters::map::Map<",
                      "core::iter::adapters::rev::Rev<", "core::iter::adapters::zip::Zip<", "core::iter::adapters::skip::Skip<",
                      "core::iter::adapters::take::Take<", "core::iter::adapters::cloned::Cloned<",
                      "core::iter::adapters::copied::Copied<", "core::iter::adapters::peekable::Peekable<",
                      "core::iter::adapters::filter::Filter<", "core::iter::adapters::filter_map::FilterMap<",
                      "core::iter::adapters::inspect::Inspect<", "core::iter::adapters::step_by::StepBy<",
                      "core::iter::adapters::take_while::TakeWhile<", "core::iter::adapters::skip_while::SkipWhile<",
                      "core::iter::adapters::fuse::Fuse<", "core::iter::adapters::map_while::MapWhile<")


def _first_generic(t):
    i = t.index("<") + 1
    depth = 0
    for j in range(i, len(t)):
        c = t[j]
        if c in "<([":
            depth += 1
        elif c in ">)]":
            if depth == 0:
                return t[i:j]
            depth -= 1
        elif c == "," and depth == 0:
            return t[i:j]
    return t[i:]


def classify_iter(ty, depth=0):
    t = ty.replace("&'{erased} mut ", "").replace("&mut ", "").strip()
    if t.startswith(ACCEPTED_ITERS):
        return "mem"
    if t.startswith(("core::ops::range::RangeInclusive<", "core::ops::range::Range<")):
        return "range"
    if t.startswith(SHRINKING_ADAPTORS) and depth < 6:
        return classify_iter(_first_generic(t), depth + 1)
    return None


def _upper_bounds(fs):
    """{normalised term: greatest value it can have} from dominating branch facts `term < c`, `term <= c`, !(term > c) ..."""
    out = {}
    for cond, value, _ in fs:
        tv = guards.truth(value)
        if tv is None or not isinstance(cond, tuple) or cond[0] != "bin" or cond[1] not in ("Lt", "Le", "Gt", "Ge"):
            continue
        op, l, r = cond[1], cond[2], cond[3]
        cl, cr = guards.rng(l), guards.rng(r)
        flip = {"Lt": "Gt", "Gt": "Lt", "Le": "Ge", "Ge": "Le"}
        neg = {"Lt": "Ge", "Ge": "Lt", "Gt": "Le", "Le": "Gt"}
        if cr and cr[0] == cr[1] and not (cl and cl[0] == cl[1]):
            term, c = l, cr[0]
        elif cl and cl[0] == cl[1]:
            term, c, op = r, cl[0], flip[op]
        else:
            continue
        if not tv:
            op = neg[op]
        ub = c - 1 if op == "Lt" else c if op == "Le" else None
        if ub is not None:
            k = repr(guards.norm(mir.strip_refs(term)))
            out[k] = min(out.get(k, ub), ub)
    return out


def _bounded_by_facts(x, ubs, limit):
    """x, or x +/- constant, for an x with a dominating upper bound, stays <= limit"""
    x = mir.strip_refs(x)
    k = repr(guards.norm(x))
    if k in ubs:
        return ubs[k] <= limit
    if isinstance(x, tuple) and x[0] == "bin" and x[1] in ("Sub", "SubWithOverflow", "Add", "AddWithOverflow"):
        k = repr(guards.norm(mir.strip_refs(x[2])))
        c = guards.rng(x[3])
        if k in ubs and c and c[0] == c[1]:
            v = ubs[k] - c[0] if x[1].startswith("Sub") else ubs[k] + c[0]
            return v <= limit
    return False


def narrowing_casts(an, rep):
    """N6: on the encode side a length is narrowed only by a checked conversion."""
    R = rep.rule("N6", "no `as` cast of an unsigned value derived from len()/size_hint() into a type that cannot hold every "
                       "value of the source type (usize as u32, u32 as i32, ...) in encode-reachable code; try_into()? "
                       "(-> LengthTooLarge) into the very type that is written is the accepted idiom")
    core, bodies = _encode_bodies(an)
    n = checked = 0
    facts_of = {}
    for b, path in bodies:
        ex = mir.Expr(b)
        for bb in sorted(mir.reachable(b)):
            blk = b.blocks[bb]
            if blk.get("cleanup"):
                continue
            for si, st in enumerate(blk["stmts"]):
                if st["k"] != "assign" or st["rv"]["rv"] != "cast" or st["rv"]["kind"] != "IntToInt":
                    continue
                fr, to = st["rv"]["from"]["s"], st["rv"]["to"]["s"]
                if fr not in guards.INT_RANGES or to not in guards.INT_RANGES or fr in ("bool",) or to in ("bool",):
                    continue
                fr_r, tr = guards.INT_RANGES[fr], guards.INT_RANGES[to]
                if fr_r[0] >= tr[0] and fr_r[1] <= tr[1]:
                    continue                 # widening: every value of the source type fits
                if fr_r[0] < 0:
                    continue                 # signed sources are N3's business (decode side) / zig-zag arithmetic
                x = ex.operand(st["rv"]["x"])
                n += 1
                r = guards.rng(x)
                if r and r[1] <= tr[1]:
                    R.ok()
                    continue
                facts = facts_of.setdefault(b.defn, guards.edge_conditions(b, ex))
                if _bounded_by_facts(x, _upper_bounds(facts.get(bb, [])), tr[1]):
                    R.ok(sample={"fn": b.key, "cast": "%s as %s" % (show(x), to), "discharged_by": "dominating upper bound"})
                    continue
                lenlike = any((y[0] == "len") or (y[0] == "call" and (y[1] in guards.PURE_LEN or "size_hint" in y[1]
                                                                         or y[1].endswith("::len")))
                              for y in mir.walk_expr(x))
                if lenlike:
                    R.fail(b.key, "cast %s as %s" % (fr, to), "length %s is truncated with `as %s`" % (show(x), to),
                           mir.loc(b, bb, si), {"call_path_from_root": path})
                else:
                    R.ok()
            t = blk["term"]
            if t["k"] == "call":
                info = mir.callee_info(t["callee"])
                if info["base_key"] in ("TryInto::try_into", "TryFrom::try_from"):
                    checked += 1
    R.count("narrowing_casts", n)
    R.floor("checked length conversions (try_into/try_from) in encode-reachable code", checked, 4)
    return R

"""Pack P - the primitive layer: provided BinaryOutput / BinaryInput methods (P1, P3), sink bodies (P2), sibling
agreement of the three sources (P4), parametricity (P5)."""
from .. import mir, guards, walk
from ..guards import norm, same
from ..mir import show, strip_refs

FIXED = {"u16": 2, "i16": 2, "u32": 4, "i32": 4, "u64": 8, "i64": 8, "u128": 16, "i128": 16, "f32": 4, "f64": 8}


def _arg(e, idx=None):
    e = strip_refs(e)
    return e[0] == "arg" and (idx is None or e[1] == idx)


def _unwrap_unsize(e):
    while True:
        e = strip_refs(e)
        if e[0] == "cast" and e[1] == "Unsize":
            e = e[4]
            continue
        return e


def _impl_items(crates, trait_suffix):
    out = []
    for c in crates:
        for imp in c.items["impls"]:
            if imp["trait"] and imp["trait"].endswith("::" + trait_suffix):
                out.append((c, imp))
    return out


def output_methods(an, rep, extra_crates=()):
    R = rep.rule("P1", "provided BinaryOutput methods: write_<ty>(v) = write_bytes(&<ty>::to_be_bytes(v)) with the matching "
                       "type (i8 via write_u8(v as u8)); every provided method funnels into write_u8/write_bytes of `self` "
                       "only; no impl overrides a provided method")
    core = an.core()
    for ty in FIXED:
        key = "BinaryOutput::write_" + ty
        b = core.find(key)
        if not b:
            R.anchor_missing(key)
            continue
        ex = mir.Expr(b)
        cs = [(bb, t, info) for bb, t, info in mir.calls(b)]
        wb = [(bb, t) for bb, t, info in cs if info["base_key"] == "BinaryOutput::write_bytes"]
        okk = len(wb) == 1 and len(cs) == 2
        detail = None
        if okk:
            args = [ex.operand(a) for a in wb[0][1]["args"]]
            payload = _unwrap_unsize(args[1])
            okk = _arg(args[0], 1) and payload[0] == "call" and payload[1] == "%s::to_be_bytes" % ty and \
                len(payload[3]) == 1 and _arg(payload[3][0], 2)
            detail = show(args[1])
        R.check(okk, key, "body", "body is not `self.write_bytes(&value.to_be_bytes())` for %s (found %s)" %
                (ty, detail or [i["key"] for _, _, i in cs]), mir.loc(b, 0), sample={"fn": key, "payload": detail})
    b = core.find("BinaryOutput::write_i8")
    if not b:
        R.anchor_missing("BinaryOutput::write_i8")
    else:
        ex = mir.Expr(b)
        cs = list(mir.calls(b))
        okk = len(cs) == 1 and cs[0][2]["base_key"] == "BinaryOutput::write_u8"
        if okk:
            a = [ex.operand(x) for x in cs[0][1]["args"]]
            v = strip_refs(a[1])
            okk = _arg(a[0], 1) and v[0] == "cast" and v[1] == "IntToInt" and v[3] == "u8" and _arg(v[4], 2)
        R.check(okk, "BinaryOutput::write_i8", "body", "body is not `self.write_u8(value as u8)`", mir.loc(b, 0))
    # funnel: calls on `self` inside provided methods go to the trait's own methods only
    funnel = 0
    for b in sorted(core.bodies.values(), key=lambda b: b.key):
        if not (b.in_trait and b.in_trait.endswith("::BinaryOutput")) or "{closure" in b.key:
            continue
        ex = mir.Expr(b)
        for bb, t, info in mir.calls(b):
            if not t["args"]:
                continue
            recv = ex.operand(t["args"][0])
            if _arg(recv, 1) and strip_refs(recv)[3].startswith("&") and "Self" in strip_refs(recv)[3]:
                funnel += 1
                R.check(info["base_key"] in ("BinaryOutput::write_u8", "BinaryOutput::write_bytes",
                                             "BinaryOutput::write_var_u32"),
                        b.key, "call on self: " + info["key"], "provided method reaches the sink through %s instead of "
                        "write_u8/write_bytes" % info["key"], mir.loc(b, bb))
    R.floor("calls on self in provided BinaryOutput methods", funnel, 14)
    # impl tables
    crates = [core] + list(extra_crates)
    impls = _impl_items(crates, "BinaryOutput")
    R.floor("impl BinaryOutput", len(impls), 4)
    for c, imp in impls:
        R.check(sorted(imp["items"]) == ["write_bytes", "write_u8"], "impl BinaryOutput for " + mir.short(imp["self"]["s"]),
                "items", "impl defines %s: a provided method is overridden (or a required one missing)" % sorted(imp["items"]),
                "%s:%s" % (imp["span"]["f"], imp["span"]["l"]),
                sample={"impl BinaryOutput for": mir.short(imp["self"]["s"]), "defines": sorted(imp["items"])})
    return R


def sink_bodies(an, rep):
    R = rep.rule("P2", "sink bodies: Vec<u8> = push / extend_from_slice; BytesMut = put_u8 / put_slice; SizeCalculator adds "
                       "exactly 1 / bytes.len() to `size` and nothing else writes it; SerializationContext forwards the "
                       "identical call to the top buffer or to the output")
    core = an.core()
    expect = {
        "<Vec<u8> as BinaryOutput>::write_u8": "Vec<T, A>::push",
        "<Vec<u8> as BinaryOutput>::write_bytes": "Vec<T, A>::extend_from_slice",
        "<BytesMut as BinaryOutput>::write_u8": "BufMut::put_u8",
        "<BytesMut as BinaryOutput>::write_bytes": "BufMut::put_slice",
    }
    for key, callee in expect.items():
        b = core.find(key)
        if not b:
            R.anchor_missing(key)
            continue
        ex = mir.Expr(b)
        cs = list(mir.calls(b))
        okk = len(cs) == 1 and (cs[0][2]["key"] == callee or cs[0][2]["base_key"] == callee)
        if okk:
            a = [ex.operand(x) for x in cs[0][1]["args"]]
            okk = _arg(a[0], 1) and _arg(a[1], 2)
        R.check(okk, key, "body", "body is not the single call %s(self, arg)" % callee, mir.loc(b, 0),
                sample={"fn": key, "calls": [i["key"] for _, _, i in cs]})
    # SizeCalculator
    size_writers = set()
    for b in core.bodies.values():
        for bb in mir.reachable(b):
            for st in b.blocks[bb]["stmts"]:
                if st["k"] == "assign" and st["place"]["proj"]:
                    names = [p.get("name") for p in st["place"]["proj"] if p["p"] == "field"]
                    ty = b.locals[st["place"]["local"]]["ty"]["s"]
                    if names == ["size"] and "SizeCalculator" in ty:
                        size_writers.add(b.key)
    from .. import callgraph as _cg
    from .n_totality import _owner_fn
    _owner, _users = _owner_fn(core, _cg.CallGraph(core))
    acct = set()
    for k_ in size_writers:
        b_ = core.find(k_)
        us = _users(b_) if b_ is not None else set()
        acct |= us if us else {k_}           # a private helper (`fn grow(&mut self, n)`) counts for the methods that use it
    size_writers = acct
    R.check(size_writers == {"<SizeCalculator as BinaryOutput>::write_u8", "<SizeCalculator as BinaryOutput>::write_bytes"},
            "SizeCalculator.size", "writers", "size is written by %s" % sorted(size_writers))
    for key, inc in (("<SizeCalculator as BinaryOutput>::write_u8", "one"), ("<SizeCalculator as BinaryOutput>::write_bytes", "len")):
        b = core.find(key)
        if not b:
            R.anchor_missing(key)
            continue
        ps = walk.walk(b, core)
        okk = len(ps) == 1 and ps[0].outcome[0] == "return"
        if okk:
            st = ps[0].stores()
            okk = len(st) == 1
            if okk:
                v = st[0][2]
                okk = v[0] == "bin" and v[1] == "Add" and norm(v[2]) == norm(st[0][1])
                if okk and inc == "one":
                    okk = guards.rng(v[3]) == (1, 1)
                elif okk:
                    okk = norm(v[3]) == ("len", ("arg", 2))
        R.check(okk, key, "size update", "size is not increased by exactly %s" % ("1" if inc == "one" else "bytes.len()"),
                mir.loc(b, 0), sample={"fn": key, "update": [show(s[2]) for p in ps for s in p.stores()]})
    # SerializationContext forwarding
    for m in ("write_u8", "write_bytes"):
        key = "<SerializationContext<Output> as BinaryOutput>::%s" % m
        b = core.find(key)
        if not b:
            R.anchor_missing(key)
            continue
        ps = walk.walk(b, core)
        seen = set()
        okk = len(ps) == 2
        for p in ps:
            ws = [e for e in p.events if e[0] == "call" and e[3] == "BinaryOutput::" + m]
            if len(ws) != 1:
                okk = False
                continue
            e = ws[0]
            tgt = strip_refs(e[5][0])
            while isinstance(tgt, tuple) and tgt[0] == "cast" and tgt[1] == "Unsize":
                tgt = strip_refs(tgt[4])              # `&mut dyn BinaryOutput` made from the concrete sink
            val = e[5][1]
            if not _arg(val, 2):
                okk = False
            at = [a for a in p.atoms() if a[1][0] == "discr"]
            variant = None
            for a in at:
                variant = walk.atom_variant(a) or variant
            src = strip_refs(a[1][1]) if at else None
            if variant == "Some":
                okk = okk and tgt[0] == "field" and tgt[1][0] == "variant" and "last_mut" in show(tgt)
                okk = okk and "buffer_stack" in show(tgt)
                seen.add("buffer")
            elif variant == "None":
                okk = okk and tgt[0] == "field" and tgt[2] == "output"
                seen.add("output")
            else:
                okk = False
        R.check(okk and seen == {"buffer", "output"}, key, "forwarding", "does not forward the identical call to "
                "buffer_stack.last_mut() / output", mir.loc(b, 0), sample={"fn": key, "targets": sorted(seen)})
    return R


def input_methods(an, rep, extra_crates=()):
    R = rep.rule("P3", "provided BinaryInput methods: read_<ty>() = <ty>::from_be_bytes(read_bytes(size_of::<ty>())?.try_into()?) "
                       "with the matching type and size (i8 via read_u8()? as i8); no impl overrides a provided method")
    core = an.core()
    for ty, size in FIXED.items():
        key = "BinaryInput::read_" + ty
        b = core.find(key)
        if not b:
            R.anchor_missing(key)
            continue
        ps = walk.walk(b, core)
        oks = [p for p in ps if p.returns_ok()]
        okk = len(oks) == 1
        detail = None
        if okk:
            p = oks[0]
            rb = p.calls("BinaryInput::read_bytes")
            ret = strip_refs(p.outcome[1])
            val = strip_refs(ret[4][0]) if ret[0] == "agg" and ret[3] == "Ok" and ret[4] else ("unk",)
            okk = len(rb) == 1 and guards.rng(rb[0][5][1]) == (size, size) and _arg(rb[0][5][0], 1) and \
                val[0] == "call" and val[1] == "%s::from_be_bytes" % ty and len(val[3]) == 1
            if okk:
                # the from_be_bytes argument derives from the bytes read through a checked slice -> array conversion
                src = val[3][0]
                sites = [x[4] for x in mir.walk_expr(src) if x[0] == "call"]
                okk = rb[0][1] in sites and any(x[0] == "call" and x[1].endswith(("try_into", "try_from"))
                                                for x in mir.walk_expr(src))
            detail = [walk.show_event(e) for e in p.calls()][:6]
        errs = [p for p in ps if not p.returns_ok()]
        okk = okk and all(p.outcome[0] == "return" and p.outcome[1][0] == "errprop" for p in errs)
        R.check(okk, key, "body", "body is not read_bytes(%d) -> try_into -> %s::from_be_bytes with errors propagated" %
                (size, ty), mir.loc(b, 0), detail, sample={"fn": key, "size": size})
    b = core.find("BinaryInput::read_i8")
    if not b:
        R.anchor_missing("BinaryInput::read_i8")
    else:
        ps = walk.walk(b, core)
        oks = [p for p in ps if p.returns_ok()]
        okk = len(oks) == 1 and len(oks[0].calls("BinaryInput::read_u8")) == 1
        if okk:
            ret = strip_refs(oks[0].outcome[1])
            v = strip_refs(ret[4][0]) if ret[0] == "agg" and ret[3] == "Ok" else ("unk",)
            okk = v[0] == "cast" and v[1] == "IntToInt" and v[3] == "i8" and strip_refs(v[4])[0] in ("ok", "okval") and \
                "read_u8" in show(v[4])
        R.check(okk, "BinaryInput::read_i8", "body", "body is not `self.read_u8()? as i8`", mir.loc(b, 0))
    crates = [core] + list(extra_crates)
    impls = _impl_items(crates, "BinaryInput")
    R.floor("impl BinaryInput", len(impls), 3)
    for c, imp in impls:
        R.check(sorted(imp["items"]) == ["read_bytes", "read_u8", "skip"], "impl BinaryInput for " + mir.short(imp["self"]["s"]),
                "items", "impl defines %s: a provided method is overridden (or a required one missing)" % sorted(imp["items"]),
                "%s:%s" % (imp["span"]["f"], imp["span"]["l"]),
                sample={"impl BinaryInput for": mir.short(imp["self"]["s"]), "defines": sorted(imp["items"])})
    return R


# ---------------------------------------------------------------------------------------------------------------
# P4: roles of the three sources.  CUR = absolute cursor, END = absolute end, INPUT = the byte slice.
SOURCES = {
    "SliceInput": {"input": ("field", ("arg", 1), "data"), "pos": ("field", ("arg", 1), "pos"), "start": None,
                   "end": ("len", ("field", ("arg", 1), "data"))},
    "OwnedInput": {"input": ("field", ("arg", 1), "data"), "pos": ("field", ("arg", 1), "pos"), "start": None,
                   "end": ("len", ("field", ("arg", 1), "data"))},
    "DeserializationContext": {"input": ("field", ("arg", 1), "input"),
                               "pos": ("field", ("field", ("arg", 1), "current"), "pos"),
                               "start": ("field", ("field", ("arg", 1), "current"), "start"),
                               "end": ("field", ("field", ("arg", 1), "current"), "end")},
}


def _roles(src):
    r = SOURCES[src]
    cur = r["pos"] if r["start"] is None else ("bin", "Add", r["start"], r["pos"])
    return r, cur


def _canon(e, src):
    """normalised term with the source's fields replaced by role names"""
    r, cur = _roles(src)
    n = norm(e)

    def rep(x):
        if not isinstance(x, tuple):
            return x
        if x == cur or (x[0] == "bin" and x[1] == "Add" and r["start"] and x[2] == r["pos"] and x[3] == r["start"]):
            return "CUR"
        if x == r["end"]:
            return "END"
        if x == r["pos"]:
            return "POS"
        if r["start"] and x == r["start"]:
            return "START"
        if x == r["input"]:
            return "INPUT"
        if x == ("arg", 2):
            return "COUNT"
        if x[0] == "call" and x[1] in ("usize::saturating_sub",):
            return ("satsub", rep(x[2][0]), rep(x[2][1]))
        return tuple(rep(y) if isinstance(y, tuple) else y for y in x)
    out = rep(n)
    if r["start"] is None:
        out = _subst(out, "POS", "CUR")
    return out


def _subst(x, a, b):
    if x == a:
        return b
    if isinstance(x, tuple):
        return tuple(_subst(y, a, b) for y in x)
    return x


FLIP = {"Lt": "Gt", "Gt": "Lt", "Le": "Ge", "Ge": "Le", "Eq": "Eq", "Ne": "Ne"}
NEG = {"Lt": "Ge", "Le": "Gt", "Gt": "Le", "Ge": "Lt", "Eq": "Ne", "Ne": "Eq"}


def _need1(x):
    """in read_u8 the constant 1 plays the role of the count"""
    if x == ("const", 1):
        return "COUNT"
    if isinstance(x, tuple):
        return tuple(_need1(y) for y in x)
    return x


def _fail_facts(path, src, method):
    """For each decision on the path: True (this decision says `not enough input`), False (enough) or a description of an
    unrecognised test.  Recognised idioms, all equivalent to  need > END - CUR  without overflow:
       need > END.saturating_sub(CUR)      (either orientation, `<` form)
       CUR >= END / END <= CUR             (need == 1)
       END.saturating_sub(CUR) == 0        (need == 1)
       input.get(CUR) is None              (need == 1)"""
    facts = []
    for a in path.atoms():
        cond, val = a[1], a[2]
        if cond[0] == "discr":
            inner = strip_refs(cond[1])
            if inner[0] == "try":
                continue
            while inner[0] == "call" and inner[1] in ("Option<&T>::copied", "Option<&T>::cloned") and inner[3]:
                inner = strip_refs(inner[3][0])
            if inner[0] == "call" and inner[1] in ("[T]::get", "[T]::first") and method == "read_u8":
                cc = [_canon(x, src) for x in inner[3]]
                v = walk.atom_variant(a)
                if cc[0] == "INPUT" and (len(cc) == 1 or cc[1] == "CUR") and v in ("Some", "None"):
                    facts.append(v == "None")
                    continue
            if inner[0] in ("arg", "phi", "const"):
                continue
            facts.append("match on %s" % show(inner)[:80])
            continue
        atoms = guards.bool_atoms(cond, val)
        if not atoms:
            e = cond
            if e[0] in ("phi", "const"):
                continue
            facts.append("test %s" % show(cond)[:80])
            continue
        for op, l, r in atoms:
            l, r = _canon(l, src), _canon(r, src)
            if method == "read_u8":
                l, r = _need1(l), _need1(r)
            if r in ("CUR", "COUNT") and l not in ("CUR", "COUNT"):
                op, l, r = FLIP[op], r, l
            avail = ("satsub", "END", "CUR")
            if (l, r) == ("COUNT", avail):
                facts.append({"Gt": True, "Le": False}.get(op, "comparison COUNT %s available" % op))
            elif (l, r) == ("CUR", "END") and method == "read_u8":
                facts.append({"Ge": True, "Lt": False}.get(op, "comparison CUR %s END" % op))
            elif l == avail and r == ("const", 0) and method == "read_u8":
                facts.append({"Eq": True, "Ne": False, "Gt": False}.get(op, "comparison available %s 0" % op))
            else:
                facts.append("comparison %s %s %s" % (l, op, r))
    return facts


def sources_agree(an, rep):
    R = rep.rule("P4", "the three input sources agree method by method: exactly one overflow-safe decision `need > end - cursor` "
                       "(in absolute coordinates; accepted idioms listed in the rule) selects InputEndedUnexpectedly, the cursor "
                       "is advanced by exactly 1 / count otherwise, returned bytes = input[cursor .. cursor+count]")
    core = an.core()
    summaries = {}
    for src in SOURCES:
        for m in ("read_u8", "read_bytes", "skip"):
            key = "<%s as BinaryInput>::%s" % (src, m)
            b = core.find(key)
            if not b:
                R.anchor_missing(key)
                continue
            ps = walk.walk(b, core)
            where = mir.loc(b, 0)
            oks = [p for p in ps if p.returns_ok()]
            errs = [p for p in ps if p.outcome[0] == "return" and not p.returns_ok()]
            others = [p for p in ps if p.outcome[0] != "return"]
            if not R.check(len(oks) >= 1 and len(errs) >= 1 and not others, key, "paths", "expected successful and failing "
                           "paths only (found %d ok, %d err, %d other)" % (len(oks), len(errs), len(others)), where):
                continue
            shape = []
            for p in ps:
                facts = _fail_facts(p, src, m)
                bad = [f for f in facts if not isinstance(f, bool)]
                for f in bad:
                    R.fail(key, "guard idiom", "bounds decision `%s` is not one of the accepted overflow-safe idioms for "
                           "`need > end - cursor` in absolute coordinates" % f, where)
                dec = [f for f in facts if isinstance(f, bool)]
                is_ok = p.returns_ok()
                if not bad:
                    R.check(len(dec) == 1 and dec[0] == (not is_ok), key, "decision", "a path returning %s is taken under the "
                            "decisions %s (expected exactly one: `not enough input` == %s)" %
                            ("Ok" if is_ok else "Err", dec, not is_ok), where, sample={"fn": key, "path": "Ok" if is_ok else "Err", "decision": dec})
                if not is_ok:
                    R.check(walk.err_variant(p.outcome[1]) == "InputEndedUnexpectedly", key, "error variant",
                            "failing edge returns %s instead of Err(InputEndedUnexpectedly)" % show(p.outcome[1])[:100], where)
                    R.check(not p.stores(), key, "failing edge moves the cursor", "the failing edge modifies the cursor", where)
                    continue
                # cursor update
                st = p.stores()
                inc = None
                if len(st) == 1:
                    tgt = _canon(st[0][1], src)
                    val = _canon(st[0][2], src)
                    base = "CUR" if SOURCES[src]["start"] is None else "POS"
                    if tgt == base and isinstance(val, tuple) and val[0] == "bin" and val[1] == "Add" and val[2] == base:
                        inc = val[3]
                want = ("const", 1) if m == "read_u8" else "COUNT"
                R.check(inc == want, key, "cursor update", "cursor is not advanced by exactly %s on the passing edge (stores: %s)"
                        % (want, [show(s[2]) for s in st]), where)
                # returned value
                ret = strip_refs(p.outcome[1])
                val = strip_refs(ret[4][0]) if ret[0] == "agg" and ret[3] == "Ok" and ret[4] else None
                if m == "skip":
                    R.check(val is not None and val[0] == "agg" and val[1] == "tuple", key, "return", "skip returns a value", where)
                elif m == "read_u8":
                    R.check(_is_input_at_cur(val, src), key, "return", "returned byte is not input[cursor] (found %s)" %
                            (show(val)[:100] if val else None), where)
                else:
                    rng_ok = False
                    if val is not None and val[0] == "call" and "Index" in val[1]:
                        cc = [_canon(a, src) for a in val[3]]
                        r = cc[1]
                        rng_ok = cc[0] == "INPUT" and isinstance(r, tuple) and r[0] == "agg" and r[2] and r[2].endswith("Range") \
                            and r[4][0] == "CUR" and r[4][1] == ("bin", "Add", "CUR", "COUNT")
                    R.check(rng_ok, key, "return", "returned slice is not input[cursor .. cursor + count]", where)
                shape.append(str(inc))
            summaries[(src, m)] = tuple(sorted(set(shape)))
    for m in ("read_u8", "read_bytes", "skip"):
        vals = {src: summaries.get((src, m)) for src in SOURCES}
        R.check(len(set(vals.values())) == 1 and None not in vals.values(), "BinaryInput::" + m, "sibling agreement",
                "the three sources disagree: %s" % vals, None, sample={"method": m, "summary": str(list(vals.values())[0])})
    return R


def _is_input_at_cur(val, src):
    if val is None:
        return False
    c = _canon(val, src)
    if isinstance(c, tuple) and c[0] == "index" and c[1] == "INPUT" and c[2] == "CUR":
        return True
    if val[0] == "call" and "Index" in val[1]:
        cc = [_canon(a, src) for a in val[3]]
        return cc[0] == "INPUT" and cc[1] == "CUR"
    # payload of input.get(cursor): Some(&byte)
    v = val
    while isinstance(v, tuple) and (v[0] in ("field", "variant", "deref", "ref") or
                                    (v[0] == "call" and v[1] in ("Option<&T>::copied", "Option<&T>::cloned") and v[3])):
        v = v[1] if v[0] != "call" else v[3][0]
    if isinstance(v, tuple) and v[0] == "call" and v[1] in ("[T]::get",):
        cc = [_canon(a, src) for a in v[3]]
        return cc[0] == "INPUT" and cc[1] == "CUR"
    return False


TYPE_TESTS = ("castaway::", "core::any::TypeId", "core::any::type_name", "core::mem::size_of", "core::intrinsics::size_of",
              "core::any::Any::type_id", "core::mem::align_of", "core::intrinsics::type_id", "core::intrinsics::type_name")
BYTE_SPECIALISATION_SITES = {
    "<[T] as BinarySerializer>::serialize", "<[T; L] as BinarySerializer>::serialize", "<Vec<T> as BinarySerializer>::serialize",
    "<[T; L] as BinaryDeserializer>::deserialize", "<Vec<T> as BinaryDeserializer>::deserialize",
}


def parametricity(an, rep):
    R = rep.rule("P5", "outside the frozen byte-specialisation sites no library code branches on a type (castaway, TypeId, "
                       "type_name, size_of) - in particular never on the Output / input type - so the sequence of "
                       "write_u8/write_bytes calls cannot depend on the sink")
    core = an.core()
    from .. import callgraph
    from .n_totality import _owner_fn
    owner, users = _owner_fn(core, callgraph.CallGraph(core))
    n = 0
    for b in sorted(core.bodies.values(), key=lambda b: b.key):
        for bb, t, info in mir.calls(b):
            d = info["def"] or ""
            if not d.startswith(TYPE_TESTS):
                continue
            n += 1
            fk = b.key.split("::{closure")[0]
            root = core.bodies.get(b.raw.get("root")) if b.kind == "Closure" else b
            us = users(root or b)          # a private helper holding the type test is accounted to the functions using it
            in_site = fk in BYTE_SPECIALISATION_SITES or (bool(us) and all(u in BYTE_SPECIALISATION_SITES for u in us))
            targs = " ".join(a.get("s", "") for a in info["targs"])
            on_sink = "Output" in targs or "BinaryOutput" in targs or "BinaryInput" in targs
            R.check(in_site and not on_sink, b.key, "type test " + info["key"],
                    "type-dependent branch outside the frozen byte-specialisation sites%s" %
                    (" (on the sink/source type)" if on_sink else ""), mir.loc(b, bb),
                    sample={"fn": b.key, "type_test": info["key"], "on": mir.short(targs)[:80]})
    R.floor("type tests", n, 10)
    return R

"""Pack O - emission order vs stream order of the string table (C09)."""
from .. import callgraph, mir


def header_strings(an, rep):
    R = rep.rule("O1", "no function reachable from AdtSerializer::write_evolution_header reaches State::store_string: the "
                       "header is emitted after the record's fields but read before them, so any string it registers is "
                       "numbered differently by writer and reader")
    core = an.core()
    cg = callgraph.CallGraph(core)
    hdr = core.find("AdtSerializer<Output>::write_evolution_header")
    if not hdr:
        R.anchor_missing("AdtSerializer<Output>::write_evolution_header")
        return R
    # the header is written from finish(): establish that it is emitted after the buffered fields
    fin = core.find("AdtSerializer<Output>::finish")
    if fin:
        # on every path of finish() that writes anything, the header call comes first and chunk bytes follow it
        from .. import walk
        ok_paths = 0
        for p in walk.walk(fin, core):
            hs = p.calls("AdtSerializer<Output>::write_evolution_header")
            ws = [e for e in p.events if e[0] == "call" and e[3].startswith("BinaryOutput::write_")]
            if not hs and not ws:
                continue
            good = len(hs) == 1 and all(p.events.index(w) > p.events.index(hs[0]) for w in ws)
            ok_paths += 1 if (good and ws) else 0
            R.check(good, "AdtSerializer<Output>::finish", "header then chunks", "finish() writes chunk bytes without / before "
                    "the evolution header", None, sample={"finish": "write_evolution_header, then the chunk buffers"})
        R.check(ok_paths > 0, "AdtSerializer<Output>::finish", "header then chunks", "finish() does not emit header and chunks")
    paths = cg.reach([hdr])
    hits = [p for d, p in paths.items() if core.bodies[d].key == "State::store_string"]
    # generic calls `step.serialize(ctx)` are resolved for SerializedEvolutionStep (concrete type): follow BinarySerializer
    # impl bodies explicitly named in the path
    if hits:
        path = hits[0]
        via = path[1] if len(path) > 1 else path[0]
        R.fail(via, "reaches State::store_string", "evolution header registers strings in the dedup table: call path %s"
               % " -> ".join(path), mir.loc(hdr, 0), {"call_path": path})
    else:
        R.ok(sample={"functions reachable from write_evolution_header": len(paths)})
    return R

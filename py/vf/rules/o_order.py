"""Pack O - emission order vs stream order of the string table (C09)."""
from .. import callgraph, mir


def header_strings(an, rep):
    R = rep.rule("O1", "no function reachable from AdtSerializer::write_evolution_header reaches State::store_string: the "
                       "header is emitted after the record's fields but read before them, so any string it registers is "
                       "numbered differently by writer and reader")
    core = an.core()
    cg = callgraph.CallGraph(core)
    hdr = core.find("AdtSerializer<Output>::write_evolution_header")
    if not hdr:
        R.anchor_missing("AdtSerializer<Output>::write_evolution_header")
        return R
    # the header is written from finish(): establish that it is emitted after the buffered fields
    fin = core.find("AdtSerializer<Output>::finish")
    if fin:
        ks = [i["key"] for _, _, i in mir.calls(fin)]
        R.check("AdtSerializer<Output>::write_evolution_header" in ks and "AdtSerializer<Output>::write_ordered_chunks" in ks,
                "AdtSerializer<Output>::finish", "header then chunks", "finish() does not emit header and chunks", None,
                sample={"finish calls": [k for k in ks if k.startswith("AdtSerializer")]})
    paths = cg.reach([hdr])
    hits = [p for d, p in paths.items() if core.bodies[d].key == "State::store_string"]
    # generic calls `step.serialize(ctx)` are resolved for SerializedEvolutionStep (concrete type): follow BinarySerializer
    # impl bodies explicitly named in the path
    if hits:
        path = hits[0]
        via = path[1] if len(path) > 1 else path[0]
        R.fail(via, "reaches State::store_string", "evolution header registers strings in the dedup table: call path %s"
               % " -> ".join(path), mir.loc(hdr, 0), {"call_path": path})
    else:
        R.ok(sample={"functions reachable from write_evolution_header": len(paths)})
    return R

"""Pack E - error discipline: no library error is dropped or defaulted (E1 decode side, E2 encode side); each documented
error variant is constructed where the format assigns it (E3)."""
from .. import mir, callgraph
from ..mir import show

ERR = "desert_core::error::Error"
CONSUME_OK = ("Try>::branch",)
SWALLOW = ("Result<T, E>::ok", "Result<T, E>::unwrap_or", "Result<T, E>::unwrap_or_default", "Result<T, E>::unwrap_or_else",
           "Result<T, E>::is_ok", "Result<T, E>::is_err", "Result<T, E>::err", "Result<T, E>::unwrap", "Result<T, E>::expect",
           "Result<T, E>::iter", "Result<T, E>::into_iter", "drop", "Result<T, E>::is_ok_and", "Result<T, E>::map_or",
           "Result<T, E>::map_or_else", "Result<T, E>::or", "Result<T, E>::or_else", "Result<T, E>::unwrap_or_default",
           "Iterator::flatten", "Iterator::filter_map", "Iterator::flat_map")
TRANSFORM = ("Result<T, E>::map_err", "Result<T, E>::map", "Result<T, E>::and_then", "Option<T>::ok_or_else", "Option<T>::ok_or",
             "Result<T, E>::as_ref", "Result<T, E>::as_mut")


def _is_lib_result(ty):
    if not ty or ty.get("k") != "adt" or ty.get("path") != "core::result::Result" or len(ty["args"]) != 2:
        return False
    e = ty["args"][1]
    return e.get("k") == "adt" and e.get("path") == ERR


def _carries_error(ty):
    from .. import types
    return types.contains(ty, lambda t: t.get("k") == "adt" and t.get("path") == ERR)


def _uses(body, local):
    """(bb, kind, detail) for every use of a whole local"""
    out = []
    for bb in sorted(mir.reachable(body)):
        blk = body.blocks[bb]
        if blk.get("cleanup"):
            continue
        for si, st in enumerate(blk["stmts"]):
            if st["k"] != "assign":
                continue
            rv = st["rv"]
            ops = []
            for k in ("x", "l", "r"):
                if k in rv:
                    ops.append(rv[k])
            ops += rv.get("fields", [])
            for o in ops:
                p = mir.op_place(o)
                if p and p["local"] == local:
                    out.append((bb, "assign", (st, si, p)))
            if rv.get("place") and rv["place"]["local"] == local:
                out.append((bb, "place-" + rv["rv"], (st, si, rv["place"])))
        t = blk["term"]
        if t["k"] == "call":
            for i, a in enumerate(t["args"]):
                p = mir.op_place(a)
                if p and p["local"] == local:
                    out.append((bb, "callarg", (t, i)))
        elif t["k"] == "switch":
            p = mir.op_place(t["op"])
            if p and p["local"] == local:
                out.append((bb, "switch", t))
    return out


_MATCHED = set()


def _matched_arms(R, core, defns):
    """a library Result that is matched (`match r {..}`, `if let Ok(v) = r`, `let Ok(v) = r else {..}`) instead of propagated:
    every path through its Err arm must end in an error outcome - an Err / propagated return, or an item / state that
    carries an error - never in a plain Ok value, a default or a `break` to the code after the loop"""
    from .. import walk
    n = 0
    for defn in sorted(defns):
        b = core.bodies.get(defn)
        if b is None or b.kind == "Closure":
            continue
        for p in walk.walk(b, core, max_paths=1500, auto_inline=False):
            if p.outcome[0] != "return":
                continue
            for a in p.atoms():
                c = a[1]
                if c[0] != "discr" or walk.atom_variant(a) != "Err":
                    continue
                x = mir.strip_refs(c[1])
                if not isinstance(x, tuple) or x[0] != "call" or not _lib_result_call(core, x):
                    continue
                n += 1
                out = p.outcome[1]
                text = show(out)
                carries = any(isinstance(y, tuple) and y[0] == "variant" and y[2] == "Err" for y in mir.walk_expr(out))
                okk = carries or walk.is_err_term(out) is not False or "Err{" in text or "errval(" in text or "Error::" in text or \
                    "InputEndedUnexpectedly" in text or "Invalid" in text
                R.check(okk, b.key, "error arm of " + x[1], "the Err arm of a matched library result ends in a non-error "
                        "outcome (%s): the error is swallowed" % text[:80], mir.loc(b, 0),
                        sample={"fn": b.key, "matched": x[1], "err_arm_outcome": text[:80]})
    return n


def _lib_result_call(core, x):
    """the call term yields Result<_, desert::Error>: a local function / trait method whose return type says so"""
    d = x[2]
    cb = core.bodies.get(d) if d else None
    if cb is not None:
        return _is_lib_result(cb.locals[0]["ty"])
    return x[1].startswith(("BinaryInput::", "BinaryDeserializer::", "BinarySerializer::", "BinaryOutput::write_compressed")) or \
        x[1].endswith(("as BinaryDeserializer>::deserialize", "as BinarySerializer>::serialize")) or \
        "as BinaryInput>::" in x[1]


ERR_CLOSURE = ("Result<T, E>::map_or_else", "Result<T, E>::or_else", "Result<T, E>::unwrap_or_else")
_CRATE = [None]


def _err_closure_keeps(body, t):
    """the error-handling closure (2nd argument) of the combinator call `t` is local and every path through it returns a
    term that contains its error parameter"""
    crate = _CRATE[0]
    if crate is None or len(t["args"]) < 2:
        return False
    c = mir.strip_refs(mir.Expr(body).operand(t["args"][1]))
    if not (isinstance(c, tuple) and c[0] == "agg" and c[1] == "closure" and c[2] in crate.bodies):
        return False
    from .. import walk
    cb = crate.bodies[c[2]]
    ps = walk.walk(cb, crate, max_paths=50)
    if not ps:
        return False
    for p in ps:
        if p.outcome[0] != "return":
            return False
        if not any(isinstance(x, tuple) and x[0] == "arg" and x[1] == 2 for x in mir.walk_expr(p.outcome[1])):
            return False
    return True


def _flows_ok(body, local, seen, depth=0):
    """Does the Result held in `local` reach an accepted consumer on every use?  Returns (ok, reason)."""
    if local in seen or depth > 12:
        return True, "cycle"
    seen.add(local)
    if local == 0:
        return True, "returned"
    uses = _uses(body, local)
    consumed = False
    for bb, kind, d in uses:
        if kind == "callarg":
            t, i = d
            if mir.op_place(t["args"][i])["proj"]:
                consumed = True            # a projection of the matched value (e.g. `(r as Ok).0`) is used: it was matched
                continue
            info = mir.callee_info(t["callee"])
            k = info["key"]
            if k.endswith(CONSUME_OK):
                consumed = True
                continue
            if k in ERR_CLOSURE and _err_closure_keeps(body, t) and not t["dest"]["proj"] and _carries_error(t["dest"]["ty"]):
                # r.map_or_else(|e| e, ..) / r.or_else(|e| Err(f(e))): the error closure returns a value built from the
                # error on every path and the result still has the library error in its type
                okk, why = _flows_ok(body, t["dest"]["local"], seen, depth + 1)
                if not okk:
                    return False, why
                consumed = True
                continue
            if k in SWALLOW or info["base_key"] in SWALLOW:
                return False, "passed to %s" % k
            if k in TRANSFORM:
                dl = t["dest"]["local"] if not t["dest"]["proj"] else None
                if dl is None:
                    return False, "transformed by %s into a projection" % k
                okk, why = _flows_ok(body, dl, seen, depth + 1)
                if not okk:
                    return False, why
                consumed = True
                continue
            # any other std combinator on the Result: not a swallow if its own result still carries the error type
            if (info["krate"] in ("core", "std", "alloc")) and not t["dest"]["proj"] and _carries_error(t["dest"]["ty"]):
                okk, why = _flows_ok(body, t["dest"]["local"], seen, depth + 1)
                if not okk:
                    return False, why
                consumed = True
                continue
            # passed by value to some other function: accept closures/FnOnce results and constructors that wrap it
            if k in ("Option<T>::Some", "FnOnce::call_once") or info["local"]:
                consumed = True
                continue
            if "from_residual" in k:
                consumed = True
                continue
            return False, "passed to %s" % k
        if kind == "assign":
            st, si, p = d
            if p["proj"]:
                consumed = True
                continue
            rv = st["rv"]
            tgt = st["place"]
            if rv["rv"] == "use" or rv["rv"] == "agg":
                if tgt["proj"]:
                    consumed = True        # stored into a structure (e.g. Some(result) for an iterator item)
                    continue
                okk, why = _flows_ok(body, tgt["local"], seen, depth + 1)
                if not okk:
                    return False, why
                consumed = True
                continue
            if rv["rv"] == "discr":
                consumed = True
                continue
        if kind.startswith("place-"):
            st, si, p = d
            if kind == "place-discr":
                consumed = True          # matched: the error arm is inspected path-wise by _matched_arms
                _MATCHED.add(body.defn)
                continue
            if kind == "place-ref":
                tgt = st["place"]
                if not tgt["proj"]:
                    okk, why = _flows_ok(body, tgt["local"], seen, depth + 1)
                    if not okk:
                        return False, why
                    consumed = True
                continue
    if not consumed:
        return False, "value is never consumed (dropped)"
    return True, "consumed"


def _check_side(an, rep, side, rule_id, crate=None, roots=None):
    R = rep.rule(rule_id, "in %s-reachable code every Result<_, desert::Error> is propagated with `?`, returned, matched, or "
                          "yielded as an iterator item; .ok() / .unwrap_or*() / .is_ok() / let _ = / plain drop are violations"
                 % side)
    core = crate or an.core()
    _CRATE[0] = core
    _MATCHED.clear()
    cg = callgraph.CallGraph(core)
    selftest = roots is not None
    if roots is None:
        roots = callgraph.decode_roots(core) if side == "decode" else callgraph.encode_roots(core)
    paths = cg.reach(roots)
    n = 0
    for defn, path in sorted(paths.items()):
        b = core.bodies[defn]
        for bb, t, info in mir.calls(b):
            dest = t["dest"]
            dty = dest["ty"]
            if not _is_lib_result(dty):
                continue
            if info["key"].endswith("::from_residual") or info["key"] in TRANSFORM:
                continue
            n += 1
            if dest["proj"]:
                R.ok()
                continue
            okk, why = _flows_ok(b, dest["local"], set())
            R.check(okk, b.key, "result of " + info["key"], "library error is not propagated: %s" % why, mir.loc(b, bb),
                    {"call_path_from_root": path}, sample={"fn": b.key, "result_of": info["key"], "fate": why})
    _matched_arms(R, core, set(_MATCHED) & set(paths))
    if selftest:
        return R
    R.floor("fallible library calls inspected", n, 60 if side == "decode" else 40)
    # the one accepted conversion: deserialize_iterator turns a failed count read into an error-yielding iterator
    if side == "decode":
        b = core.find("deserialize_iterator")
        if b:
            from .. import walk
            ps = walk.walk(b, core)
            errp = [p for p in ps if any(a[1][0] == "discr" and walk.atom_variant(a) == "Err" and
                                         "read_var_i32" in show(a[1][1]) and "try_from" not in show(a[1][1]) for a in p.atoms())]
            okk = bool(errp) and all(p.outcome[0] == "return" and "InputEndedUnexpectedly" in show(p.outcome[1]) for p in errp)
            R.check(okk, "deserialize_iterator", "failed count read", "a failed count read is not turned into the "
                    "error-yielding iterator state", mir.loc(b, 0), sample={"deserialize_iterator": "Err(_) -> InputEndedUnexpectedly state"})
    return R


def decode_errors(an, rep):
    return _check_side(an, rep, "decode", "E1")


def encode_errors(an, rep):
    return _check_side(an, rep, "encode", "E2")


EXPECTED_SITES = {
    "UnsupportedCharacter": {"<char as BinarySerializer>::serialize"},
    "LengthTooLarge": {"<Error as From<TryFromIntError>>::from"},
    "InvalidStringId": {"<DeduplicatedString as BinaryDeserializer>::deserialize"},
    "InvalidRefId": {"DeserializationContext::try_read_ref"},
    "InvalidConstructorId": {"AdtDeserializer::invalid_constructor_id"},
    "FieldRemovedInSerializedVersion": {"AdtDeserializer::read_field"},
    "FieldWithoutDefaultValueIsMissing": {"AdtDeserializer::read_field"},
    "NonOptionalFieldSerializedAsNone": {"AdtDeserializer::read_field"},
    "UnknownFieldReferenceInEvolutionStep": {"AdtSerializer<Output>::write_evolution_header"},
    "InputEndedUnexpectedly": {"<SliceInput as BinaryInput>::read_u8", "<SliceInput as BinaryInput>::read_bytes",
                               "<SliceInput as BinaryInput>::skip", "<OwnedInput as BinaryInput>::read_u8",
                               "<OwnedInput as BinaryInput>::read_bytes", "<OwnedInput as BinaryInput>::skip",
                               "<DeserializationContext as BinaryInput>::read_u8",
                               "<DeserializationContext as BinaryInput>::read_bytes",
                               "<DeserializationContext as BinaryInput>::skip"},
    "CompressionFailure": {"BinaryOutput::write_compressed"},
    "DecompressionFailure": {"BinaryInput::read_compressed"},
    "FailedToDecodeString": {"<Error as From<FromUtf8Error>>::from"},
    "FailedToDecodeCharacter": {"<Error as From<DecodeUtf16Error>>::from"},
}


def error_sites(an, rep):
    R = rep.rule("E3", "each documented error variant is constructed in the function the format assigns it to (presence: the "
                       "expected site set is a subset of the construction sites found)")
    core = an.core()
    sites = {}
    for b in core.bodies.values():
        for bb in mir.reachable(b):
            blk = b.blocks[bb]
            if blk.get("cleanup"):
                continue
            for st in blk["stmts"]:
                if st["k"] == "assign" and st["rv"]["rv"] == "agg" and st["rv"].get("kind") == "adt" and st["rv"]["adt"] == ERR:
                    sites.setdefault(st["rv"]["variant"], set()).add(b.key)
    # a construction site inside a closure or private helper counts for every function that reaches it
    cg = callgraph.CallGraph(core)
    reach_cache = {}

    def reached_from(key):
        if key not in reach_cache:
            b = core.find(key)
            reach_cache[key] = {core.bodies[d].key for d in cg.reach([b])} if b else set()
        return reach_cache[key]
    for v, want in sorted(EXPECTED_SITES.items()):
        got = sites.get(v, set())
        missing = [w for w in want if not (got & reached_from(w))]
        R.check(not missing, "Error::" + v, "construction sites", "expected construction in (or below) %s, found %s" %
                (sorted(missing), sorted(got)), sample={"variant": v, "sites": sorted(got)})
    return R

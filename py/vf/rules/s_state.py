"""Pack S - process-wide and per-call state: statics inventory (S1), closed lazy initialisers (S2), who constructs /
writes State and AdtMetadata (S3), no iteration over owned hash collections (S4), fresh context per call (S5)."""
from .. import mir, guards, callgraph, types
from ..mir import show

OWNERS = ("desert_core::state::State", "desert_core::adt::AdtMetadata", "desert_core::adt::serializer::AdtSerializer",
          "desert_core::adt::deserializer::AdtDeserializer")
HASH_ITER = ("iter", "iter_mut", "keys", "values", "values_mut", "drain", "into_iter", "into_keys", "into_values",
             "retain", "extract_if", "union", "intersection", "difference", "symmetric_difference")


def _is_lazy_meta(ty):
    return ty.get("k") == "adt" and ty["path"] == "lazy_static::lazy::Lazy" and ty["args"] and \
        ty["args"][0].get("path") == "desert_core::adt::AdtMetadata"


def statics_of(crate):
    return crate.items["statics"]


def statics_inventory(an, rep, crates=None, ignore=(), floor=2):
    R = rep.rule("S1", "the only statics are lazy_static handles (zero-sized) and their `Lazy<AdtMetadata>` cells; no "
                       "`static mut`, no other interior-mutable static, no thread_local")
    crates = crates or [an.core()]
    n = 0
    for crate in crates:
        handle_types = set()
        for st in statics_of(crate):
            if st["path"].startswith(ignore) and ignore:
                continue
            n += 1
            ty = st["ty"]
            where = "%s:%s" % (st["span"]["f"], st["span"]["l"])
            if st["mut"]:
                R.fail(st["path"], "static mut", "mutable static", where)
                continue
            if _is_lazy_meta(ty):
                R.ok(sample={"static": mir.short(st["path"]), "type": types.show(ty)})
                continue
            # the lazy_static handle: a unit struct named like the static itself, frozen
            if ty.get("k") == "adt" and ty["path"] == st["path"] and st["freeze"]:
                adt = [a for a in crate.items["adts"] if a["path"] == ty["path"]]
                if adt and all(len(v["fields"]) <= 1 for v in adt[0]["variants"]):
                    R.ok()
                    continue
            R.check(False, st["path"], "static of type " + types.show(ty), "static is neither a lazy_static handle nor a "
                    "Lazy<AdtMetadata> cell (freeze=%s)" % st["freeze"], where)
        # thread_local!: a const/static of type LocalKey, or a fn item named __getit / a `LocalKey` constant
        for c in crate.items["consts"]:
            if "LocalKey" in c["ty"].get("s", ""):
                R.fail(c["path"], "thread_local", "thread-local state", None)
        for b in crate.bodies.values():
            if b.test:
                continue
            for bb, t, info in mir.calls(b):
                if info["key"].startswith("LocalKey<T>::"):
                    R.fail(b.key, "thread_local access", "thread-local state is accessed", mir.loc(b, bb))
    R.floor("statics", n, floor)
    return R


ALLOWED_INIT_CRATES = ("core", "alloc", "hashbrown", "desert_core", "lazy_static", "foldhash", "std", "desert")
DENY_INIT = ("std::env", "std::time", "std::fs", "std::net", "std::thread", "std::process", "std::io", "std::sync",
             "core::sync::atomic", "std::sys", "std::os", "rand", "getrandom")


def lazy_initialisers(an, rep, crates=None, floor=1):
    R = rep.rule("S2", "every lazy_static initialiser is closed: the functions it reaches read no static and call "
                       "nothing from env/time/fs/net/thread/io/sync/atomic, so its value is the same whoever wins the Once")
    crates = crates or [an.core()]
    n = 0
    for crate in crates:
        cg = callgraph.CallGraph(crate)
        inits = [b for b in crate.bodies.values() if b.key.endswith("::__static_ref_initialize")]
        for init in sorted(inits, key=lambda b: b.key):
            n += 1
            reach = cg.reach([init])
            okk = True
            for defn, path in reach.items():
                b = crate.bodies[defn]
                for blk_i in mir.reachable(b):
                    blk = b.blocks[blk_i]
                    if blk.get("cleanup"):
                        continue
                    for o in _operands(blk):
                        c = o.get("const")
                        if c and c.get("static"):
                            okk = False
                            R.fail(init.key, "reads static " + mir.short(c["static"]), "lazy initialiser depends on "
                                   "another static", mir.loc(b, blk_i), {"path": path})
                for bb, t, info in mir.calls(b):
                    d = info["def"] or ""
                    if d.startswith(DENY_INIT) or (info["krate"] and info["krate"] not in ALLOWED_INIT_CRATES
                                                   and not info["local"]):
                        okk = False
                        R.fail(init.key, "calls " + info["key"], "lazy initialiser reaches a callee outside the closed "
                               "set (crate %s)" % info["krate"], mir.loc(b, bb), {"path": path})
            if okk:
                R.ok(sample={"initialiser": init.key, "functions_reached": len(reach)})
    R.floor("lazy initialisers", n, floor)
    return R


def _operands(blk):
    for st in blk["stmts"]:
        if st["k"] != "assign":
            continue
        rv = st["rv"]
        for k in ("x", "l", "r"):
            if k in rv:
                yield rv[k]
        for f in rv.get("fields", []):
            yield f
    t = blk["term"]
    if t["k"] == "call":
        for a in t["args"]:
            yield a
    elif t["k"] == "switch":
        yield t["op"]


def constructors_and_writers(an, rep):
    R = rep.rule("S3", "State is constructed only by State::default, which is referenced only from "
                       "SerializationContext::new and DeserializationContext::new; its fields are written only by "
                       "store_string/store_ref (+ the id counters' next()); AdtMetadata is built only by AdtMetadata::new")
    core = an.core()
    state_fields = set()
    meta_fields = set()
    for adt in core.items["adts"]:
        if adt["path"] == "desert_core::state::State":
            state_fields = {f["name"] for f in adt["variants"][0]["fields"]}
        if adt["path"] == "desert_core::adt::AdtMetadata":
            meta_fields = {f["name"] for f in adt["variants"][0]["fields"]}
    R.floor("State fields", len(state_fields), 2)
    R.floor("AdtMetadata fields", len(meta_fields), 5)
    builders = {"desert_core::state::State": [], "desert_core::adt::AdtMetadata": []}
    default_refs = []
    writers = {}
    from .n_totality import _owner_fn
    owner, users = _owner_fn(core, callgraph.CallGraph(core))

    def acct(b):
        """a private non-anchor helper is accounted to the function(s) it is called from"""
        return users(b) or {owner(b)}
    for b in sorted(core.bodies.values(), key=lambda b: b.key):
        ex = None
        for bb in sorted(mir.reachable(b)):
            blk = b.blocks[bb]
            if blk.get("cleanup"):
                continue
            for si, st in enumerate(blk["stmts"]):
                if st["k"] != "assign":
                    continue
                rv = st["rv"]
                if rv["rv"] == "agg" and rv.get("kind") == "adt" and rv["adt"] in builders:
                    builders[rv["adt"]].append(b.key)
                # direct stores into fields / &mut borrows of fields of State
                for pl, is_mut_use in ((st["place"], True), (rv.get("place"), rv["rv"] == "ref" and rv.get("mut"))):
                    if not pl or not is_mut_use:
                        continue
                    fowner, fld = _field_owner(b, pl)
                    if fowner == "desert_core::state::State" and fld in state_fields:
                        writers.setdefault(fld, set()).update(acct(b))
                    if fowner == "desert_core::adt::AdtMetadata" and fld in meta_fields:
                        writers.setdefault("meta." + fld, set()).update(acct(b))
            for o in _operands(blk):
                c = o.get("const")
                if c and c.get("fn"):
                    d = mir.callee_def(c["fn"])
                    if d and d.endswith("<desert_core::state::State as core::default::Default>::default"):
                        default_refs.append(b.key)
        for bb, t, info in mir.calls(b):
            if info["key"] == "<State as Default>::default":
                default_refs.append(b.key)
    R.check(set(builders["desert_core::state::State"]) == {"<State as Default>::default"}, "State", "aggregate",
            "State is built in %s" % sorted(set(builders["desert_core::state::State"])),
            sample={"State built in": sorted(set(builders["desert_core::state::State"]))})
    R.check(set(builders["desert_core::adt::AdtMetadata"]) == {"AdtMetadata::new"}, "AdtMetadata", "aggregate",
            "AdtMetadata is built in %s" % sorted(set(builders["desert_core::adt::AdtMetadata"])))
    allowed_default = {"SerializationContext<Output>::new", "DeserializationContext::new"}
    R.check(set(default_refs) <= allowed_default and len(set(default_refs)) == 2, "State::default", "references",
            "State::default is referenced from %s" % sorted(set(default_refs)),
            sample={"State::default referenced from": sorted(set(default_refs))})
    # one context (hence one string / reference numbering) per top-level call: inside the library the contexts are built only
    # by the entry points; a nested codec that builds its own context restarts the numbering in mid-stream
    ctx_callers = {"SerializationContext<Output>::new": set(), "DeserializationContext::new": set()}
    for b in core.bodies.values():
        if b.test:
            continue
        for bb, t, info in mir.calls(b):
            if info["key"] in ctx_callers:
                root = core.bodies.get(b.raw.get("root")) if b.kind == "Closure" else b
                ctx_callers[info["key"]].update(acct(root or b))
    want_callers = {"SerializationContext<Output>::new": {"serialize"}, "DeserializationContext::new": {"deserialize"}}
    for k, cs in sorted(ctx_callers.items()):
        R.check(cs <= want_callers[k] and bool(cs), k, "callers", "a context is built by %s; inside the library only the entry point "
                "%s may do that" % (sorted(cs), sorted(want_callers[k])), sample={"ctor": k, "called_from": sorted(cs)})
    # whatever the tables are called and however they are grouped: only the two numbering functions touch them
    allowed = {"State::store_string", "State::store_ref"}
    for fld in sorted(state_fields):
        ws = writers.get(fld, set())
        R.check(ws <= allowed, "State." + fld, "writers", "field is mutably used by %s" % sorted(ws),
                sample={"field": fld, "writers": sorted(ws)})
    for fld in sorted(meta_fields):
        ws = writers.get("meta." + fld, set())
        R.check(not ws, "AdtMetadata." + fld, "writers", "AdtMetadata field is mutated after construction by %s" % sorted(ws))
    return R


def _field_owner(body, pl):
    """(adt path, field name) of the outermost field projection of a place, following derefs from the local's type."""
    ty = body.locals[pl["local"]]["ty"]
    owner = fld = None
    for pr in pl["proj"]:
        if pr["p"] == "deref":
            ty = ty.get("t", {}) if ty.get("k") in ("ref", "ptr") else {}
        elif pr["p"] == "field":
            if ty.get("k") == "adt":
                owner, fld = ty["path"], pr["name"]
            ty = pr["ty"]
        elif pr["p"] == "downcast":
            pass
        else:
            ty = {}
    return owner, fld


def no_hash_iteration(an, rep, crates=None):
    R = rep.rule("S4", "no iteration over a hash-based collection owned by State / AdtMetadata / AdtSerializer / "
                       "AdtDeserializer (only point lookups), so the per-process hash seed cannot reach the output")
    crates = crates or [an.core()]
    n = 0
    lookups = 0
    for crate in crates:
        for b in sorted(crate.bodies.values(), key=lambda b: b.key):
            ex = None
            for bb, t, info in mir.calls(b):
                name = info["key"].split("::")[-1]
                selfty = None
                if info.get("impl_self"):
                    selfty = info["impl_self"]["s"]
                elif info["targs"]:
                    selfty = info["targs"][0].get("s", "")
                if not selfty or not ("HashMap<" in selfty or "HashSet<" in selfty):
                    continue
                if not t["args"]:
                    continue
                ex = ex or mir.Expr(b)
                recv = ex.operand(t["args"][0])
                owned = False
                for x in mir.walk_expr(recv):
                    if x[0] == "field" and x[1] is not None:
                        own = _expr_owner(b, x)
                        if own in OWNERS:
                            owned = True
                    if x[0] == "arg" and any(o.split("::")[-1] in x[3] for o in OWNERS) and "HashMap" not in x[3].split("<")[0]:
                        pass
                if not owned:
                    # parameters typed as a bare hash collection inside the owner's own methods (e.g. removed_fields: &HashSet)
                    if b.key.startswith(("AdtSerializer<Output>::", "AdtDeserializer::", "State::", "AdtMetadata::")):
                        owned = any(x[0] == "arg" for x in mir.walk_expr(recv))
                if not owned:
                    continue
                n += 1
                if name in HASH_ITER or info["base_key"] == "IntoIterator::into_iter":
                    R.fail(b.key, "%s on owned hash collection" % info["key"], "iteration order of a hash collection owned "
                           "by per-call / per-type state can reach the output", mir.loc(b, bb), {"receiver": show(recv)})
                else:
                    lookups += 1
                    R.ok(sample={"fn": b.key, "lookup": info["key"], "receiver": show(recv)})
    R.floor("point lookups on owned hash collections", lookups, 12)
    return R


def _expr_owner(body, fexpr):
    base = mir.strip_refs(fexpr[1])
    if base[0] == "arg":
        ty = body.locals[base[1]]["ty"]
        while ty.get("k") in ("ref", "ptr"):
            ty = ty["t"]
        return ty.get("path")
    if base[0] == "field" and len(base) > 4:
        # nested: type string of the inner field
        s = base[4]
        for o in OWNERS:
            if s.replace("&'{erased} ", "").replace("&'{erased} mut ", "").startswith(o):
                return o
    return None


def fresh_context(an, rep):
    R = rep.rule("S5", "serialize() builds a fresh SerializationContext from the caller's output and returns "
                       "into_output() only on the Ok edge of value.serialize; deserialize() builds a fresh "
                       "DeserializationContext; the convenience entry points go through serialize()")
    core = an.core()
    ser = core.body("serialize")
    from .. import walk
    n_ok = n_err = 0
    for p in walk.walk(ser, core):
        if p.outcome[0] != "return":
            continue
        out = p.outcome[1]
        in_term = [x for x in mir.walk_expr(out) if x[0] == "call"]
        keys = [c[2] for c in p.calls()] + [x[1] for x in in_term]
        base = [c[3] for c in p.calls()]
        R.check("SerializationContext<Output>::new" in keys, "serialize", "SerializationContext::new", "no fresh context is built")
        R.check(base.count("BinarySerializer::serialize") == 1, "serialize", "value.serialize",
                "expected exactly one value.serialize call, found %d" % base.count("BinarySerializer::serialize"))
        # which edge of value.serialize(..) this path took
        edge = None
        for a in p.atoms():
            c = a[1]
            if c[0] != "discr":
                continue
            inner = mir.strip_refs(c[1])
            if inner[0] == "try":
                inner = mir.strip_refs(inner[1])
            if inner[0] == "call" and inner[1] == "BinarySerializer::serialize":
                v = walk.atom_variant(a)
                edge = "ok" if v in ("Continue", "Ok") else "err" if v in ("Break", "Err") else edge
        is_err = walk.is_err_term(out) is not False
        hands_back = any(k == "SerializationContext<Output>::into_output" for k in keys)
        if is_err:
            n_err += 1
            R.check(not any(x[1] == "SerializationContext<Output>::into_output" for x in in_term), "serialize",
                    "error path", "an error return carries the output of the context")
        else:
            n_ok += 1
            R.check(hands_back, "serialize", "into_output", "output is not taken from the context with into_output()")
            R.check(edge == "ok", "serialize", "into_output dominated by Ok", "an Ok return is not on the Continue/Ok edge of "
                    "`value.serialize(&mut context)`: a failed encoding could hand back bytes", mir.loc(ser, 0),
                    sample={"fn": "serialize", "into_output": "only on the Ok edge of value.serialize"})
    R.check(n_ok >= 1 and n_err >= 1, "serialize", "paths", "expected an Ok and an error path (found %d / %d)" % (n_ok, n_err))
    de = core.body("deserialize")
    dcalls = [info["key"] for _, _, info in mir.calls(de)]
    R.check("DeserializationContext::new" in dcalls, "deserialize", "DeserializationContext::new", "no fresh context is built")
    R.check("BinaryDeserializer::deserialize" in [i["base_key"] for _, _, i in mir.calls(de)], "deserialize",
            "T::deserialize", "does not decode through T::deserialize")
    for name in ("serialize_to_bytes", "serialize_to_byte_vec"):
        b = core.body(name)
        # calls made directly or through private helpers shared by the convenience entry points
        ks = sorted({c[2] for p_ in walk.walk(b, core) for c in p_.calls()} | {info["key"] for _, _, info in mir.calls(b)})
        R.check("serialize" in ks, name, "calls serialize", "convenience entry point does not go through serialize()",
                sample={"fn": name, "calls": ks})
        R.check(not any(k.startswith("SerializationContext") for k in ks), name, "own context",
                "convenience entry point builds its own context")
    return R

"""Pack B - bit-level abstract interpretation of the four varint routines (complete for all 2^32 inputs at once)."""
from .. import bitai, mir
from ..bitai import BV, ZERO, ONE, bvar, bxor, Interp, Unsupported


def _x(ty="u32", prefix="x"):
    return BV.var(prefix, ty)


def _ref_bytes(k):
    """reference encoding of a u32 whose bits >= 7k are zero (k<5): k bytes"""
    x = [bvar("x%d" % i) for i in range(32)]
    out = []
    for i in range(k):
        bits = []
        for j in range(7):
            idx = 7 * i + j
            bits.append(x[idx] if idx < 32 else ZERO)
        bits.append(ONE if i < k - 1 else ZERO)
        out.append(BV(bits, "u8"))
    return out


def _zero_sub(k):
    return {"x%d" % i: 0 for i in range(7 * k, 32)} if k < 5 else {}


def varints(an, rep):
    core = an.core()
    names = {"w32": "BinaryOutput::write_var_u32", "wi32": "BinaryOutput::write_var_i32",
             "r32": "BinaryInput::read_var_u32", "ri32": "BinaryInput::read_var_i32"}
    bodies = {}
    R0 = rep.rule("B0", "the four varint routines exist as provided trait methods and stay inside the analysable fragment "
                        "(loop-free, shift/mask/cast/compare-with-power-of-two only); anything else fails closed")
    for k, key in names.items():
        b = core.find(key)
        if not b:
            R0.anchor_missing(key)
            return
        bodies[k] = b
        R0.ok()
    try:
        _run(rep, bodies, R0, core)
    except Unsupported as e:
        R0.fail("varint routines", "unsupported construct", "bit-level interpretation left the exact domain: %s" % e)


def _run(rep, bodies, R0, core):
    # ---------------------------------------------------------------- B1 / B6
    R1 = rep.rule("B1", "write_var_u32: on the path where bits >= 7k are zero and bits >= 7(k-1) are not all zero (k = 1..5) "
                        "the emitted bytes are b_i = x[7i..7i+6] | (i<k-1)<<7: layout, minimal length, continuation bits")
    res = Interp(bodies["w32"], {2: _x()}, crate=core).run()
    R1.check(len(res) == 5, "write_var_u32", "paths", "expected 5 width classes, found %d paths" % len(res))
    seen = {}
    for r in res:
        k = len(r.out)
        if not all(isinstance(o, BV) for o in r.out):
            R1.fail("write_var_u32", "bytes", "non-byte output on a path")
            continue
        if k in seen or not 1 <= k <= 5:
            R1.fail("write_var_u32", "length %d" % k, "unexpected or duplicate byte count %d" % k)
            continue
        seen[k] = r
        want_sub = _zero_sub(k)
        R1.check(r.sub == want_sub, "write_var_u32", "path condition k=%d" % k,
                 "path emitting %d byte(s) is taken when bits %s are zero; the format requires exactly bits >= %d" %
                 (k, sorted(r.sub, key=lambda s: int(s[1:]))[:3], 7 * k),
                 sample={"k": k, "zero_bits_from": 7 * k})
        # minimality: for k>1 some atom says "bits >= 7(k-1) not all zero"
        if k > 1:
            lo = 7 * (k - 1)
            want_vars = {"x%d" % i for i in range(lo, 32) if ("x%d" % i) not in want_sub}
            okm = False
            for vec, truth in r.atoms:
                vs = set()
                for b in vec.subst(r.sub).bits:
                    if b != bitai.TOP:
                        vs |= set(b[1])
                if truth is False and vs == want_vars:
                    okm = True
            R1.check(okm, "write_var_u32", "minimality k=%d" % k, "the %d-byte path is not guarded by `bits >= %d not all "
                     "zero`: a shorter encoding exists for some values on this path (or a longer path shadows it)" % (k, lo))
        ref = [b.subst(want_sub) for b in _ref_bytes(k)]
        for i, (got, want) in enumerate(zip(r.out, ref)):
            R1.check(got.subst(want_sub) == want, "write_var_u32", "byte %d of %d" % (i, k),
                     "byte %d on the %d-byte path is %r, the format prescribes %r" % (i, k, got, want),
                     sample={"k": k, "byte": i, "bits": repr(got)})
    R1.check(set(seen) == {1, 2, 3, 4, 5}, "write_var_u32", "width classes", "byte counts produced: %s" % sorted(seen))
    # ---------------------------------------------------------------- B2
    R2 = rep.rule("B2", "write_var_i32 passes zigzag(x) = (x << 1) ^ (x >> 31) to write_var_u32 and writes nothing else")
    res2 = Interp(bodies["wi32"], {2: _x("i32")}, crate=core).run()
    zig = None
    if R2.check(len(res2) == 1 and len(res2[0].out) == 1 and isinstance(res2[0].out[0], tuple), "write_var_i32", "shape",
                "expected exactly one write_var_u32 call"):
        zig = res2[0].out[0][2]
        x = [bvar("x%d" % i) for i in range(32)]
        want = BV([x[31]] + [bxor(x[i - 1], x[31]) for i in range(1, 32)], "u32")
        R2.check(isinstance(zig, BV) and zig.bits == want.bits, "write_var_i32", "zig-zag",
                 "argument of write_var_u32 is %r, zig-zag prescribes %r" % (zig, want), sample={"zigzag": repr(zig)})
    # ---------------------------------------------------------------- B3
    R3 = rep.rule("B3", "read_var_u32: with continuation bits 1..1,0 on bytes 0..k-1 (k<5; any 5th byte) the result is the "
                        "little-endian concatenation of the low 7 bits")
    res3 = Interp(bodies["r32"], {}, crate=core).run()
    ok_paths = [r for r in res3 if isinstance(r.ret, tuple) and r.ret[0] == "variant" and r.ret[1] == "Ok"]
    R3.check(len(ok_paths) == 5, "read_var_u32", "paths", "expected 5 Ok paths, found %d" % len(ok_paths))
    for r in ok_paths:
        k = r.nread
        want_sub = {}
        for i in range(k):
            if i < k - 1:
                want_sub["b%d_7" % i] = 1
            elif k < 5:
                want_sub["b%d_7" % i] = 0
        R3.check(r.sub == want_sub, "read_var_u32", "continuation bits k=%d" % k,
                 "path reading %d byte(s) requires %s, the format requires %s" % (k, r.sub, want_sub))
        bits = []
        for i in range(32):
            byte, j = divmod(i, 7)
            bits.append(bvar("b%d_%d" % (byte, j)) if byte < k else ZERO)
        want = BV(bits, "u32")
        got = r.ret[2][0]
        R3.check(isinstance(got, BV) and got.bits == want.bits, "read_var_u32", "value k=%d" % k,
                 "decoded value on the %d-byte path is %r, expected %r" % (k, got, want), sample={"k": k, "value": repr(got)})
    # ---------------------------------------------------------------- B4
    R4 = rep.rule("B4", "read_var_i32 returns (r >> 1) ^ -(r & 1) of the value read by read_var_u32")
    res4 = Interp(bodies["ri32"], {}, crate=core).run()
    ok4 = [r for r in res4 if isinstance(r.ret, tuple) and r.ret[0] == "variant" and r.ret[1] == "Ok"]
    if R4.check(len(ok4) == 1, "read_var_i32", "paths", "expected one Ok path"):
        rr = [bvar("r%d" % i) for i in range(32)]
        want = BV([bxor(rr[i + 1], rr[0]) for i in range(31)] + [rr[0]], "i32")
        got = ok4[0].ret[2][0]
        R4.check(isinstance(got, BV) and got.bits == want.bits, "read_var_i32", "un-zig-zag",
                 "result is %r, expected %r" % (got, want), sample={"unzigzag": repr(got)})
    # ---------------------------------------------------------------- B5
    R5 = rep.rule("B5", "composition: read_var_u32 over the bytes of every write_var_u32 path selects exactly one reader path, "
                        "consumes exactly those bytes and yields x; read_var_i32(zigzag(x)) = x")
    for k, r in sorted(seen.items()):
        rr = Interp(bodies["r32"], {}, reader_bytes=r.out, sub=r.sub, crate=core).run()
        oks = [q for q in rr if isinstance(q.ret, tuple) and q.ret[0] == "variant" and q.ret[1] == "Ok"]
        okc = len(rr) == 1 and len(oks) == 1 and oks[0].nread == k
        got = oks[0].ret[2][0] if oks else None
        want = _x().subst(r.sub)
        R5.check(okc and isinstance(got, BV) and got.subst(r.sub).bits == want.bits, "read_var_u32 . write_var_u32",
                 "k=%d" % k, "reading the %d byte(s) written gives %r (consumed %s), expected %r" %
                 (k, got, [q.nread for q in rr], want), sample={"k": k, "read(write(x))": repr(got)})
    if zig is not None:
        rr = Interp(bodies["ri32"], {"$r": zig}, crate=core).run()
        oks = [q for q in rr if isinstance(q.ret, tuple) and q.ret[0] == "variant" and q.ret[1] == "Ok"]
        got = oks[0].ret[2][0] if oks else None
        want = _x("i32")
        R5.check(len(oks) == 1 and isinstance(got, BV) and got.bits == want.bits, "read_var_i32 . write_var_i32", "identity",
                 "un-zig-zag of zig-zag is %r, expected the identity" % (got,), sample={"unzigzag(zigzag(x))": repr(got)})

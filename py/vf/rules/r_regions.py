"""Pack R - regions, buffers, coordinate systems: pairing (R1, R2), dimension analysis of offsets (R3), no peeking at the
remaining length (R4), chunks skipped up front (R5)."""
from .. import mir, guards, walk, callgraph
from ..mir import show, strip_refs

# ------------------------------------------------------------------------------------------------ R3
ABS, OFF, ANY, BAD = "ABS", "OFF", "ANY", "BAD"
FIELD_TAG = {
    ("desert_core::deserializer::ResolvedInputRegion", "start"): ABS,
    ("desert_core::deserializer::ResolvedInputRegion", "end"): ABS,
    ("desert_core::deserializer::ResolvedInputRegion", "delta"): ABS,
    ("desert_core::deserializer::ResolvedInputRegion", "pos"): OFF,
    ("desert_core::deserializer::InputRegion", "start"): OFF,
    ("desert_core::deserializer::InputRegion", "end"): OFF,
    ("desert_core::deserializer::InputRegion", "pos"): OFF,
}
REGION_ADTS = ("desert_core::deserializer::ResolvedInputRegion", "desert_core::deserializer::InputRegion")


INFERRED = {}        # (region adt, field not in FIELD_TAG) -> tag inferred from every initialiser / store (reset per run)
_ARG_MEMO = {}


def _callers(crate):
    cs = crate.__dict__.get("_dim_callers")
    if cs is None:
        cs = {}
        for b in crate.bodies.values():
            for bb, t, info in mir.calls(b):
                if info["def"] in crate.bodies:
                    cs.setdefault(info["def"], []).append((b, t))
        crate.__dict__["_dim_callers"] = cs
    return cs


class Dim:
    def __init__(self, body, crate=None):
        self.body = body
        self.crate = crate
        self.errors = []

    def arg_tag(self, idx, depth):
        """dimension of a usize parameter of a non-public function: the common dimension of the actual arguments at all its
        call sites (so that `fn whole(input_len: usize)` called with input.len() is absolute); OFF (a count) otherwise"""
        b, crate = self.body, self.crate
        if crate is None or b.vis in (None, "Public") or (b.impl and b.impl.get("trait")) or b.in_trait or depth > 6:
            return OFF
        key = (b.defn, idx)
        if key in _ARG_MEMO:
            return _ARG_MEMO[key]
        _ARG_MEMO[key] = OFF
        sites = _callers(crate).get(b.defn, [])
        res = None
        for cb, t in sites:
            if idx - 1 >= len(t["args"]):
                continue
            tg = Dim(cb, crate).tag(mir.Expr(cb).operand(t["args"][idx - 1]), depth + 1)
            if tg == ANY:
                continue
            res = tg if res in (None, tg) else BAD
        res = res if res in (ABS, OFF) else OFF
        _ARG_MEMO[key] = res
        return res

    def helper_tag(self, defstr):
        """dimension of the value a private non-anchor helper returns (the Ok payload for a Result): the common tag of all
        its returning paths, so that extracting `fn consume(..) -> Result<usize>` keeps the arithmetic visible"""
        crate = self.crate
        if crate is None or defstr not in crate.bodies:
            return ANY
        memo = crate.__dict__.setdefault("_dim_helper", {})
        if defstr in memo:
            return memo[defstr]
        memo[defstr] = ANY
        cb = crate.bodies[defstr]
        w = walk.Walker(cb, crate)
        if not w._auto_inlinable(cb, ()):
            return ANY
        sub = Dim(cb, crate)
        res = ANY
        for p in w.run():
            if p.outcome[0] != "return" or walk.is_err_term(p.outcome[1]):
                continue
            t = strip_refs(p.outcome[1])
            if isinstance(t, tuple) and t[0] == "agg" and t[2] == "core::result::Result" and t[3] == "Ok" and t[4]:
                t = t[4][0]
            tg = sub.tag(t)
            res = tg if res == ANY else (res if tg in (ANY, res) else BAD)
        self.errors.extend(sub.errors)
        memo[defstr] = res
        return res

    def owner_of(self, e):
        """adt path owning the field read `e` (from the static type of its base)"""
        base = e[1]
        # the type string of the base: for nested fields use the recorded field type, for args the local type
        b = strip_refs(base)
        ts = None
        if b[0] == "arg":
            ts = b[3]
        elif b[0] == "field" and len(b) > 4:
            ts = b[4]
        elif b[0] == "phi":
            ts = b[2]
        elif b[0] == "call":
            ts = None
        if ts is None:
            return None
        ts = ts.replace("&'{erased} mut ", "").replace("&'{erased} ", "")
        for a in REGION_ADTS:
            if ts.startswith(a):
                return a
        return None

    def tag(self, e, depth=0):
        e = strip_refs(e)
        if not isinstance(e, tuple) or depth > 40:
            return ANY
        k = e[0]
        if k == "const":
            return ANY if e[2] == 0 else OFF
        if k == "field" and isinstance(e[1], tuple) and e[1][0] == "variant" and e[1][2] == "Continue" and \
                isinstance(e[1][1], tuple) and e[1][1][0] == "call" and e[1][1][1].endswith("Try>::branch") and e[1][1][3]:
            return self.tag(e[1][1][3][0], depth + 1)          # `x?`
        if k == "field":
            own = self.owner_of(e)
            if own and (own, e[2]) in FIELD_TAG:
                return FIELD_TAG[(own, e[2])]
            if own:
                return INFERRED.get((own, e[2]), ANY)
            return ANY
        if k == "len":
            inner = strip_refs(e[1])
            if (inner[0] == "field" and inner[2] == "input") or (inner[0] == "arg" and inner[2] == "input"):
                return ABS
            return OFF
        if k == "call":
            key = e[1]
            if key in guards.PURE_LEN and e[3]:
                inner = strip_refs(e[3][0])
                if (inner[0] == "field" and inner[2] == "input") or (inner[0] == "arg" and inner[2] == "input"):
                    return ABS
                return OFF
            if key in ("usize::saturating_sub", "usize::wrapping_sub"):
                return self.sub(self.tag(e[3][0], depth + 1), self.tag(e[3][1], depth + 1), e)
            if key in ("usize::checked_sub",):
                return self.sub(self.tag(e[3][0], depth + 1), self.tag(e[3][1], depth + 1), e)
            if key in ("usize::saturating_add", "usize::wrapping_add", "usize::checked_add"):
                return self.add(self.tag(e[3][0], depth + 1), self.tag(e[3][1], depth + 1), e)
            if key in ("Ord::min", "Ord::max"):
                a, b = self.tag(e[3][0], depth + 1), self.tag(e[3][1], depth + 1)
                return self.same(a, b, e)
            if key == "DeserializationContext::pos":
                return OFF
            if self.crate is not None and e[2] in self.crate.bodies:
                return self.helper_tag(e[2])
            return ANY
        if k == "cast":
            return OFF if e[1] == "IntToInt" else ANY
        if k == "arg":
            return self.arg_tag(e[1], depth) if e[3] == "usize" else ANY
        if k == "bin":
            a, b = self.tag(e[2], depth + 1), self.tag(e[3], depth + 1)
            if e[1] in ("Add", "AddWithOverflow"):
                return self.add(a, b, e)
            if e[1] in ("Sub", "SubWithOverflow"):
                return self.sub(a, b, e)
            return ANY
        if k in ("ok",):
            return OFF
        return ANY

    def add(self, a, b, e):
        if ABS in (a, b):
            if a == ABS and b == ABS:
                self.errors.append(("adds two absolute offsets", e))
                return BAD
            return ABS
        if OFF in (a, b):
            return OFF
        return ANY

    def sub(self, a, b, e):
        if a == ABS and b == ABS:
            return OFF
        if a == ABS:
            return ABS
        if b == ABS and a == OFF:
            self.errors.append(("subtracts an absolute offset from a relative one", e))
            return BAD
        if OFF in (a, b):
            return OFF
        return ANY

    def same(self, a, b, e):
        if a == ANY:
            return b
        if b == ANY or a == b:
            return a
        self.errors.append(("mixes an absolute and a relative offset", e))
        return BAD


def coordinates(an, rep):
    R = rep.rule("R3", "dimension analysis of the region bookkeeping: ResolvedInputRegion.{start,end,delta} and input.len() "
                       "are absolute offsets, .pos / InputRegion.* / counts are relative; ABS+OFF=ABS, ABS-ABS=OFF; every "
                       "comparison compares like with like, every store keeps the field's dimension, every index into the "
                       "input is absolute")
    core = an.core()
    ncmp = nstore = nagg = nidx = 0
    INFERRED.clear()
    _ARG_MEMO.clear()
    core.__dict__.pop("_dim_helper", None)
    # fields of the region types the table does not name (a renamed private field): their dimension is inferred from what is
    # stored into them; the stores must agree
    for _round in range(3):
        seen = {}
        for b in core.bodies.values():
            if "deserializer" not in b.file or b.test:
                continue
            ex = dim = None
            for bb in mir.reachable(b):
                blk = b.blocks[bb]
                if blk.get("cleanup"):
                    continue
                for st in blk["stmts"]:
                    if st["k"] != "assign":
                        continue
                    rv = st["rv"]
                    pairs = []
                    if rv["rv"] == "agg" and rv.get("kind") == "adt" and rv["adt"] in REGION_ADTS:
                        pairs = [((rv["adt"], fn_), ("op", fo)) for fn_, fo in zip(rv["fnames"], rv["fields"])]
                    pl = st["place"]
                    if pl["proj"] and pl["proj"][-1]["p"] == "field":
                        own, fld = _owner(b, pl)
                        if own in REGION_ADTS:
                            pairs.append(((own, fld), ("rv", rv)))
                    for key, (kind, v) in pairs:
                        if key in FIELD_TAG:
                            continue
                        ex = ex or mir.Expr(b, core)
                        dim = dim or Dim(b, core)
                        tg = dim.tag(ex.operand(v) if kind == "op" else ex.rvalue(v))
                        seen.setdefault(key, set()).add(tg)
        new = {}
        for key, tags in seen.items():
            tags = tags - {ANY}
            new[key] = ANY if not tags else (tags.pop() if len(tags) == 1 else BAD)
        if new == INFERRED:
            break
        INFERRED.clear()
        INFERRED.update(new)
        _ARG_MEMO.clear()
        core.__dict__.pop("_dim_helper", None)
    for key, tg in sorted(INFERRED.items()):
        R.check(tg != BAD, "%s.%s" % (mir.short(key[0]), key[1]), "inferred dimension", "field receives both absolute and "
                "relative offsets", None, sample={"field": "%s.%s" % (mir.short(key[0]), key[1]), "inferred": tg})
    for b in sorted(core.bodies.values(), key=lambda b: b.key):
        if "deserializer" not in b.file or b.test:
            continue
        ex = mir.Expr(b, core)
        dim = Dim(b, core)
        for bb in sorted(mir.reachable(b)):
            blk = b.blocks[bb]
            if blk.get("cleanup"):
                continue
            for si, st in enumerate(blk["stmts"]):
                if st["k"] != "assign":
                    continue
                rv = st["rv"]
                where = mir.loc(b, bb, si)
                if rv["rv"] == "bin" and rv["op"] in ("Lt", "Le", "Gt", "Ge", "Eq", "Ne"):
                    l, r = ex.operand(rv["l"]), ex.operand(rv["r"])
                    tl, tr = dim.tag(l), dim.tag(r)
                    if ABS in (tl, tr) or (OFF in (tl, tr) and _region_related(l, r, dim)):
                        ncmp += 1
                        R.check(not ({tl, tr} == {ABS, OFF}) and BAD not in (tl, tr), b.key, "comparison %s" % rv["op"],
                                "compares %s (%s) with %s (%s): offsets in different coordinate systems" %
                                (show(l), tl, show(r), tr), where,
                                sample={"fn": b.key, "cmp": "%s %s %s" % (show(l), rv["op"], show(r)), "dims": [tl, tr]})
                if rv["rv"] == "agg" and rv.get("kind") == "adt" and rv["adt"] in REGION_ADTS:
                    nagg += 1
                    for fname, fo in zip(rv["fnames"], rv["fields"]):
                        want = FIELD_TAG.get((rv["adt"], fname), INFERRED.get((rv["adt"], fname), ANY))
                        got = dim.tag(ex.operand(fo))
                        if want in (ANY, BAD):
                            continue
                        R.check(got in (want, ANY), b.key, "%s.%s" % (mir.short(rv["adt"]), fname),
                                "field `%s` (%s) is initialised with %s, which is %s" %
                                (fname, want, show(ex.operand(fo)), got), where)
                pl = st["place"]
                if pl["proj"] and pl["proj"][-1]["p"] == "field":
                    own, fld = _owner(b, pl)
                    if own in REGION_ADTS and (own, fld) in FIELD_TAG:
                        nstore += 1
                        got = dim.tag(ex.rvalue(rv))
                        want = FIELD_TAG[(own, fld)]
                        R.check(got in (want, ANY), b.key, "store %s" % fld, "field `%s` (%s) is assigned %s, which is %s" %
                                (fld, want, show(ex.rvalue(rv)), got), where)
                # direct indexing input[i]
                for p in (rv.get("place"), mir.op_place(rv["x"]) if "x" in rv else None):
                    if p and any(q["p"] == "index" for q in p["proj"]):
                        e = ex.place(p)
                        while e[0] in ("ref", "deref", "field") and e[0] != "index":
                            e = e[1]
                        if e[0] == "index":
                            base = strip_refs(e[1])
                            if base[0] == "field" and base[2] == "input":
                                nidx += 1
                                t = dim.tag(e[2])
                                R.check(t in (ABS, ANY), b.key, "index into input", "input is indexed with %s, which is %s" %
                                        (show(e[2]), t), where)
            t = blk["term"]
            if t["k"] == "call":
                info = mir.callee_info(t["callee"])
                if "Index" in info["key"] and t["args"]:
                    recv = strip_refs(ex.operand(t["args"][0]))
                    if recv[0] == "field" and recv[2] == "input":
                        nidx += 1
                        idx = strip_refs(ex.operand(t["args"][1]))
                        parts = idx[4] if idx[0] == "agg" else [idx]
                        for part in parts:
                            tg = dim.tag(part)
                            R.check(tg in (ABS, ANY), b.key, "index into input", "input is sliced with %s, which is %s" %
                                    (show(part), tg), mir.loc(b, bb))
        for what, e in dim.errors:
            R.fail(b.key, "offset arithmetic", "%s: %s" % (what, show(e)), mir.loc(b, 0))
    R.floor("comparisons on region offsets", ncmp, 1)
    R.floor("region aggregates", nagg, 4)
    R.floor("stores to region fields", nstore, 1)
    R.floor("indexings of the input", nidx, 2)
    return R


def _region_related(l, r, dim):
    for e in (l, r):
        for x in mir.walk_expr(e):
            if x[0] == "field" and dim.owner_of(x):
                return True
    return False


def _owner(body, pl):
    ty = body.locals[pl["local"]]["ty"]
    owner = fld = None
    for pr in pl["proj"]:
        if pr["p"] == "deref":
            ty = ty.get("t", {}) if ty.get("k") in ("ref", "ptr") else {}
        elif pr["p"] == "field":
            if ty.get("k") == "adt":
                owner, fld = ty["path"], pr["name"]
            ty = pr["ty"]
        elif pr["p"] != "downcast":
            ty = {}
    return owner, fld


# ------------------------------------------------------------------------------------------------ R4
def no_peeking(an, rep):
    R = rep.rule("R4", "only the three primitive methods and the region bookkeeping read the end of the current region / the "
                       "length of the input: no decoder's behaviour may depend on how much input remains")
    core = an.core()
    from ..layers import primitive_unit
    unit = primitive_unit(core)
    n = 0
    from ..callgraph import CallGraph
    cg = CallGraph(core)
    called = {e for es in cg.edges.values() for e in es}
    called_by_derived = set()          # what the derive macro's output (the corpus crate) calls
    cprog = an.corpus()
    for nm, tst in cprog.names():
        if nm != "verif_corpus":
            continue
        for cb in cprog.crate(nm, tst).bodies.values():
            for _bb, _t, info in mir.calls(cb):
                called_by_derived.add(info["key"])
    R.floor("library functions called by derived code", len([k for k in called_by_derived if k.startswith(("AdtDeserializer::", "AdtSerializer"))]), 6)
    callers = {}
    for d, es in cg.edges.items():
        for e in es:
            callers.setdefault(e, set()).add(d)
    cand = {b.defn for b in core.bodies.values() if b.kind in ("Fn", "AssocFn") and not (b.impl and b.impl.get("trait"))
            and not b.in_trait and b.key not in called_by_derived}
    outside = {d for d in cand if d not in called}
    grew = True
    while grew:                        # ... or that is called only by such accessors
        grew = False
        for d in cand - outside:
            if callers.get(d, set()) <= outside:
                outside.add(d)
                grew = True
    for b in sorted(core.bodies.values(), key=lambda b: b.key):
        ex = None
        # an accessor that nothing in the library calls (a convenience for users: `remaining()`, `is_at_end()`) cannot make
        # any decoder of the library depend on the remaining length; one that is called from anywhere can
        uncalled = b.defn in outside
        for bb in sorted(mir.reachable(b)):
            blk = b.blocks[bb]
            if blk.get("cleanup"):
                continue
            places = []
            for st in blk["stmts"]:
                if st["k"] == "assign":
                    rv = st["rv"]
                    for k in ("x", "l", "r"):
                        if k in rv and mir.op_place(rv[k]):
                            places.append(mir.op_place(rv[k]))
                    if "place" in rv:
                        places.append(rv["place"])
                    places.append(st["place"])
            t = blk["term"]
            if t["k"] == "call":
                for a in t["args"]:
                    if mir.op_place(a):
                        places.append(mir.op_place(a))
            hit = None
            for p in places:
                own_chain = _field_chain(b, p)
                for own, fld in own_chain:
                    if own == "desert_core::deserializer::ResolvedInputRegion" and fld in ("end", "start", "delta"):
                        hit = "current." + fld
                    if own == "desert_core::deserializer::DeserializationContext" and fld in ("input", "region_stack"):
                        hit = hit or ("context." + fld)
            if hit and uncalled and b.defn not in unit:
                R.count("reads in accessors nothing in the library or in derived code calls")
                continue
            if hit:
                n += 1
                R.check(b.defn in unit, b.key, "reads " + hit, "reads the region bounds / raw input outside the "
                        "primitive layer (decoding could depend on the remaining length)", mir.loc(b, bb))
    R.floor("accesses to region bounds / raw input", n, 3)
    return R


def _field_chain(body, pl):
    out = []
    ty = body.locals[pl["local"]]["ty"]
    for pr in pl["proj"]:
        if pr["p"] == "deref":
            ty = ty.get("t", {}) if ty.get("k") in ("ref", "ptr") else {}
        elif pr["p"] == "field":
            if ty.get("k") == "adt":
                out.append((ty["path"], pr["name"]))
            ty = pr["ty"]
        elif pr["p"] != "downcast":
            ty = {}
    return out


# ------------------------------------------------------------------------------------------------ R1 / R2
def _balanced(R, key, paths, push, pop, kind):
    n = 0
    for p in paths:
        if p.outcome[0] in ("panic", "cutoff", "diverge"):
            continue
        pushes = [e for e in p.events if e[0] == "call" and e[2] == push]
        pops = [e for e in p.events if e[0] == "call" and e[2] == pop]
        is_err = p.outcome[0] == "return" and p.returns_err() is not False and not p.returns_ok()
        n += 1
        if p.outcome[0] == "return" and p.outcome[1][0] == "errprop":
            continue       # error propagation may leave a region pushed: the context is dropped by the caller (E1)
        if not R.check(len(pushes) == len(pops) and len(pushes) <= 1, key, kind + " balance",
                       "a non-error path has %d %s and %d %s" % (len(pushes), push, len(pops), pop)):
            continue
        if pushes:
            i_push = p.events.index(pushes[0])
            i_pop = p.events.index(pops[0])
            R.check(i_push < i_pop, key, kind + " order", "%s before %s" % (pop, push))
    return n


def pairing(an, rep):
    R = rep.rule("R1", "in every AdtDeserializer method each non-error path has matching push_region / pop_region (at most one "
                       "pair), the popped region is stored back into the slot it was taken from, and the field reads lie "
                       "between them; push_region/pop_region save and restore `current` on the region stack")
    core = an.core()
    for name in ("read_field", "read_optional_field", "read_constructor", "read_or_get_constructor_idx"):
        key = "AdtDeserializer::" + name
        b = core.find(key)
        if not b:
            R.anchor_missing(key)
            continue
        paths = walk.walk(b, core)
        _balanced(R, key, paths, "DeserializationContext::push_region", "DeserializationContext::pop_region", "region")
        for p in paths:
            pushes = p.calls("DeserializationContext::push_region")
            pops = p.calls("DeserializationContext::pop_region")
            if not pushes or not pops or p.outcome[1][0] == "errprop" if p.outcome[0] == "return" else True:
                continue
            # slot taken == slot restored
            src = strip_refs(pushes[0][5][1])
            slot = None
            if src[0] == "call" and "Index" in src[1]:
                slot = guards.norm(src[3][1])
            elif src[0] == "index":
                slot = guards.norm(src[2])
            else:
                # inputs.first().copied() / inputs.get(i).copied() matched as Some(region)
                t = src
                while isinstance(t, tuple) and (t[0] in ("field", "variant") or
                                                (t[0] == "call" and t[1].split("::")[-1] in ("copied", "cloned") and t[3])):
                    t = strip_refs(t[3][0] if t[0] == "call" else t[1])
                if isinstance(t, tuple) and t[0] == "call" and t[1] == "[T]::first":
                    slot = guards.norm(("const", "usize", 0, "0", None, None))
                elif isinstance(t, tuple) and t[0] == "call" and t[1] == "[T]::get" and len(t[3]) == 2:
                    slot = guards.norm(t[3][1])
            restored = None
            for e in p.events:
                if e[0] == "call" and "IndexMut" in e[2]:
                    restored = guards.norm(e[5][1])
            stores = [s for s in p.stores() if strip_refs(s[2])[0] == "call" and strip_refs(s[2])[1] == "DeserializationContext::pop_region"]
            R.check(slot is not None and restored == slot and len(stores) == 1, key, "slot restore",
                    "popped region is not written back to inputs[%s] (restored index: %s, stores of pop result: %d)" %
                    (slot, restored, len(stores)), sample={"fn": key, "slot": str(slot)})
            # reads between push and pop
            i_push, i_pop = p.events.index(pushes[0]), p.events.index(pops[0])
            for i, e in enumerate(p.events):
                if e[0] == "call" and (e[3] in ("BinaryDeserializer::deserialize",) or e[3].startswith("BinaryInput::read_")
                                        or e[2] == "FnOnce::call_once"):
                    R.check(i_push < i < i_pop, key, "read inside region", "%s happens outside the pushed region" % e[2])
    for key, checks in (("DeserializationContext::push_region", ("Vec<T, A>::push",)),
                        ("DeserializationContext::pop_region", ("Vec<T, A>::pop",))):
        b = core.find(key)
        if not b:
            R.anchor_missing(key)
            continue
        paths = [p for p in walk.walk(b, core) if p.outcome[0] == "return"]
        for p in paths:
            R.check(any(e[0] == "call" and e[2] in checks for e in p.events), key, "region stack",
                    "does not %s the region stack" % checks[0])
            upd = any(s for s in p.stores() if "current" in show(s[1])) or \
                any(e[0] == "call" and e[2] in ("replace", "swap") and any("current" in show(x) for x in e[5]) for e in p.events)
            R.check(upd, key, "current", "does not update `current`")
    # R2: buffers
    R2 = rep.rule("R2", "AdtSerializer::write_field pairs push_buffer(buffers[k].take()) with buffers[k] = Some(pop_buffer()) "
                        "on every non-error path; push_buffer/pop_buffer push/pop the buffer stack")
    b = core.find("AdtSerializer<Output>::write_field")
    if not b:
        R2.anchor_missing("AdtSerializer<Output>::write_field")
    else:
        paths = walk.walk(b, core)
        _balanced(R2, b.key, paths, "SerializationContext<Output>::push_buffer", "SerializationContext<Output>::pop_buffer", "buffer")
        for p in paths:
            pushes = p.calls("SerializationContext<Output>::push_buffer")
            pops = p.calls("SerializationContext<Output>::pop_buffer")
            subs = [e for e in p.events if e[0] == "call" and e[3] == "BinarySerializer::serialize"]
            if p.outcome[0] == "return" and p.returns_ok() and pushes and pops:
                i1, i2 = p.events.index(pushes[0]), p.events.index(pops[0])
                R2.check(all(i1 < p.events.index(s) < i2 for s in subs) and len(subs) == 1, b.key, "write inside buffer",
                         "the field value is not serialized between push_buffer and pop_buffer")
                idx = [e for e in p.events if e[0] == "call" and "IndexMut" in e[2]]
                took = [guards.norm(e[5][1]) for e in idx]
                same = len(took) == 2 and took[0] == took[1]
                if len(idx) == 1:
                    # one `&mut self.buffers[k]` used for both the take() and the write back
                    site = idx[0][1]
                    from_slot = lambda t: any(x[0] == "call" and "IndexMut" in x[1] and x[4] == site for x in mir.walk_expr(t))
                    takes = [e for e in p.events if e[0] == "call" and e[2] == "Option<T>::take" and from_slot(e[5][0])]
                    backs = [s_ for s_ in p.stores() if from_slot(s_[1]) and "pop_buffer" in show(s_[2])]
                    same = len(takes) == 1 and len(backs) == 1
                R2.check(same, b.key, "slot restore", "the buffer is not put back into the "
                         "slot it was taken from (%s)" % took, sample={"fn": b.key, "slot": str(took[:1])})
    return R


# ------------------------------------------------------------------------------------------------ R5
def chunks_skipped(an, rep):
    R = rep.rule("R5", "AdtDeserializer::new processes every header step; on every path through the FieldAddedToNewChunk arm "
                       "the chunk is skipped on the parent cursor (skip(size)? before InputRegion::new(start, size)), so the "
                       "parent cursor moves over all chunks exactly once whatever the reader's own version")
    core = an.core()
    b = core.find("AdtDeserializer::new")
    if not b:
        R.anchor_missing("AdtDeserializer::new")
        return R
    paths = walk.walk(b, core, max_paths=6000)
    arms = 0
    for p in paths:
        variant = None
        for a in p.atoms():
            c = a[1]
            if c[0] == "discr" and c[2] and any(n == "FieldAddedToNewChunk" for _, n in c[2]):
                names = dict(c[2])
                if isinstance(a[2], int):
                    variant = names.get(a[2])
                else:
                    listed = [names.get(v) for v in a[2][1]]
                    variant = "other" if "FieldAddedToNewChunk" in listed else "maybe-chunk"
        if variant is None:
            continue
        skips = p.calls("<DeserializationContext as BinaryInput>::skip", "BinaryInput::skip")
        news = p.calls("InputRegion::new")
        pushes = [e for e in p.events if e[0] == "call" and e[2] == "Vec<T, A>::push"]
        ends_err = p.outcome[0] == "return" and not p.returns_ok()
        if variant in ("FieldAddedToNewChunk", "maybe-chunk"):
            arms += 1
            if ends_err:
                continue
            okk = len(skips) == 1 and len(news) == 1 and p.events.index(skips[0]) < p.events.index(news[0])
            if okk:
                # same size term, start taken before the skip
                size_skip = guards.norm(skips[0][5][1])
                size_new = guards.norm(news[0][5][1])
                okk = size_skip == size_new
                poss = p.calls("DeserializationContext::pos")
                okk = okk and len(poss) == 1 and p.events.index(poss[0]) < p.events.index(skips[0])
            R.check(okk, b.key, "chunk arm", "a path through the FieldAddedToNewChunk arm does not skip the chunk on the "
                    "parent cursor before recording its region (skips=%d, regions=%d)" % (len(skips), len(news)),
                    mir.loc(b, 0), sample={"arm": "FieldAddedToNewChunk", "skip_then_region": True})
            R.check(not p.calls("DeserializationContext::push_region"), b.key, "no region while skipping",
                    "a region is pushed while chunks are being skipped")
        if not ends_err and p.outcome[0] == "loopback":
            R.check(len(pushes) >= 1, b.key, "one region per step", "a header step (%s) records no region: inputs would be "
                    "shorter than the number of steps" % variant)
    R.floor("paths through the chunk arm", arms, 2)
    # every step that was read gets its region: the steps are walked as they are, not cut short by an adaptor that pairs
    # them with something of the reader's own (zip), bounds or filters them
    LIMITING = ("Iterator::zip", "Iterator::take", "Iterator::skip", "Iterator::filter", "Iterator::take_while",
                "Iterator::skip_while", "Iterator::step_by", "Iterator::filter_map", "Iterator::map_while")
    step_terms = set()
    for p in paths:
        for e in p.calls():
            if e[2] == "Vec<T, A>::push" and len(e[5]) == 2 and "SerializedEvolutionStep as BinaryDeserializer>::deserialize" in show(e[5][1]):
                step_terms.add(repr(guards.norm(strip_refs(e[5][0]))))
            if e[3] == "Iterator::collect" and "SerializedEvolutionStep as BinaryDeserializer>::deserialize" in show(e[5][0]):
                step_terms.add("collect")
    n_ad = 0
    for p in paths:
        for e in p.calls():
            if e[3] in LIMITING or e[2] in LIMITING:
                recv = e[5][0] if e[5] else None
                over_steps = recv is not None and (
                    any(repr(guards.norm(x)) in step_terms for x in mir.walk_expr(recv)) or
                    "SerializedEvolutionStep as BinaryDeserializer>::deserialize" in show(recv))
                if over_steps:
                    n_ad += 1
                    R.fail(b.key, "steps limited by " + e[2], "the header steps are walked through %s: steps beyond what the "
                           "adaptor lets through get no region and their chunks are never skipped" % e[2], mir.loc(b, 0))
    if not n_ad:
        R.ok(sample={"header steps": "walked without zip / take / skip / filter"})
    # every step is read: the first loop runs over 0..=stored_version (the range may be built in an inlined private helper)
    found = False
    for p in paths:
        for e in p.calls():
            if e[2].startswith("RangeInclusive<Idx>::new") and len(e[5]) >= 2:
                hi = strip_refs(e[5][1])
                if guards.rng(e[5][0]) == (0, 0) and isinstance(hi, tuple) and hi[0] == "arg" and (
                        hi[2] == "stored_version" or (len(hi) > 3 and (hi[3] == "u8" or (isinstance(hi[3], dict) and hi[3].get("s") == "u8")))):
                    found = True
        if found:
            break
    if not found:
        # `while steps.len() < stored_version as usize + 1 { steps.push(read step) }`
        def plus_one_of_version(t):
            t = strip_refs(t)
            if t[0] == "bin" and t[1] in ("Add", "AddWithOverflow") and guards.rng(t[3]) == (1, 1):
                x = strip_refs(t[2])
                while x[0] == "cast":
                    x = strip_refs(x[4])
                if x[0] == "call" and x[1].endswith("::from") and x[3]:
                    x = strip_refs(x[3][0])
                return x[0] == "arg" and (x[2] == "stored_version" or (len(x) > 3 and x[3] == "u8"))
            return False
        for p in paths:
            # `for _ in 0..stored_version as usize + 1`
            for e in p.calls():
                for x in e[5]:
                    for y in mir.walk_expr(x):
                        if y[0] == "agg" and y[1] == "adt" and y[2] == "core::ops::range::Range" and len(y[4]) == 2 and \
                                guards.rng(y[4][0]) == (0, 0) and plus_one_of_version(y[4][1]):
                            found = True
            for a in p.atoms():
                c = a[1]
                if c[0] == "bin" and c[1] in ("Lt", "Gt", "Ne", "Ge", "Le"):
                    l, r = (c[2], c[3]) if c[1] in ("Lt", "Ne", "Ge") else (c[3], c[2])
                    if plus_one_of_version(r) and ("len" in show(l).lower()):
                        pushed = [e for e in p.calls("Vec<T, A>::push") if "SerializedEvolutionStep as BinaryDeserializer>::deserialize" in show(e[5][1])]
                        if pushed or p.outcome[0] != "loopback":
                            found = True
    R.check(found, b.key, "reads stored_version+1 steps", "the header loop does not range over 0..=stored_version")
    return R

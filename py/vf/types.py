"""Structured types (as emitted by mirdump): unification, substitution, predicates."""


def ty_eq(a, b):
    if a is None or b is None:
        return a is b
    ka, kb = a.get("k"), b.get("k")
    if ka != kb:
        return False
    if ka in ("int", "uint", "float"):
        return a["n"] == b["n"]
    if ka in ("bool", "char", "str", "never", "lt"):
        return True
    if ka == "adt":
        return a["path"] == b["path"] and len(a["args"]) == len(b["args"]) and all(ty_eq(x, y) for x, y in zip(a["args"], b["args"]))
    if ka in ("ref", "ptr"):
        return a["mut"] == b["mut"] and ty_eq(a["t"], b["t"])
    if ka == "array":
        return a["len"] == b["len"] and ty_eq(a["t"], b["t"])
    if ka == "slice":
        return ty_eq(a["t"], b["t"])
    if ka == "tuple":
        return len(a["ts"]) == len(b["ts"]) and all(ty_eq(x, y) for x, y in zip(a["ts"], b["ts"]))
    if ka == "param":
        return a["name"] == b["name"]
    if ka == "const":
        return a["s"] == b["s"]
    return a.get("s") == b.get("s")


def unify(a, b, theta=None):
    """Most general substitution of type parameters (on either side) making a == b, or None."""
    theta = dict(theta or {})

    def walk(t):
        while t.get("k") == "param" and t["name"] in theta:
            t = theta[t["name"]]
        return t

    def go(x, y):
        x, y = walk(x), walk(y)
        if x.get("k") == "param":
            if y.get("k") == "param" and y["name"] == x["name"]:
                return True
            theta[x["name"]] = y
            return True
        if y.get("k") == "param":
            theta[y["name"]] = x
            return True
        kx, ky = x.get("k"), y.get("k")
        if kx != ky:
            return False
        if kx == "adt":
            return x["path"] == y["path"] and len(x["args"]) == len(y["args"]) and all(go(p, q) for p, q in zip(x["args"], y["args"]))
        if kx in ("ref", "ptr"):
            return x["mut"] == y["mut"] and go(x["t"], y["t"])
        if kx == "array":
            return x["len"] == y["len"] and go(x["t"], y["t"])
        if kx == "slice":
            return go(x["t"], y["t"])
        if kx == "tuple":
            return len(x["ts"]) == len(y["ts"]) and all(go(p, q) for p, q in zip(x["ts"], y["ts"]))
        return ty_eq(x, y)

    return theta if go(a, b) else None


def subst(t, theta):
    k = t.get("k")
    if k == "param":
        if t["name"] in theta:
            return subst(theta[t["name"]], theta)
        return t
    if k == "adt":
        return dict(t, args=[subst(x, theta) for x in t["args"]])
    if k in ("ref", "ptr", "array", "slice"):
        return dict(t, t=subst(t["t"], theta))
    if k == "tuple":
        return dict(t, ts=[subst(x, theta) for x in t["ts"]])
    return t


def contains(t, pred):
    if pred(t):
        return True
    k = t.get("k")
    if k == "adt":
        return any(contains(x, pred) for x in t["args"])
    if k in ("ref", "ptr", "array", "slice"):
        return contains(t["t"], pred)
    if k == "tuple":
        return any(contains(x, pred) for x in t["ts"])
    return False


def show(t):
    from .facts import short
    return short(t.get("s", "?"))

"""CFG utilities and backward expression reconstruction over the MIR facts."""
from .facts import short, fn_key, make_key

PANIC_PREFIXES = ("core::panicking::", "std::rt::begin_panic", "std::panicking::", "core::option::unwrap_failed",
                  "core::result::unwrap_failed", "core::option::expect_failed", "core::slice::index::slice_",
                  "core::str::slice_error_fail", "core::cell::panic_", "alloc::raw_vec::capacity_overflow",
                  "alloc::alloc::handle_alloc_error")


# ------------------------------------------------------------------------------------------------ CFG
def term_succ(t):
    k = t["k"]
    if k == "goto" or k == "drop" or k == "assert":
        return [t["t"]]
    if k == "call":
        return [t["t"]] if t["t"] is not None else []
    if k == "switch":
        out = [b for _, b in t["targets"]]
        out.append(t["otherwise"])
        return out
    return []


def succs(body):
    if body._succ is None:
        body._succ = [term_succ(b["term"]) for b in body.blocks]
    return body._succ


def preds(body):
    if body._pred is None:
        p = [[] for _ in body.blocks]
        for i, ss in enumerate(succs(body)):
            for s in ss:
                p[s].append(i)
        body._pred = p
    return body._pred


def reachable(body):
    """Blocks reachable from entry on non-unwind edges, ignoring `unreachable` terminator blocks as targets."""
    if body._reach is None:
        seen = set()
        st = [0]
        sc = succs(body)
        while st:
            b = st.pop()
            if b in seen:
                continue
            seen.add(b)
            st.extend(sc[b])
        body._reach = seen
    return body._reach


def dominators(body):
    """dom[b] = set of blocks dominating b (only for reachable blocks)."""
    if body._dom is None:
        reach = sorted(reachable(body))
        pr = preds(body)
        allb = set(reach)
        dom = {b: set(allb) for b in reach}
        dom[0] = {0}
        changed = True
        while changed:
            changed = False
            for b in reach:
                if b == 0:
                    continue
                ps = [p for p in pr[b] if p in allb]
                new = set(allb)
                for p in ps:
                    new &= dom[p]
                new.add(b)
                if new != dom[b]:
                    dom[b] = new
                    changed = True
        body._dom = dom
    return body._dom


def back_edges(body):
    dom = dominators(body)
    out = []
    sc = succs(body)
    for b in reachable(body):
        for s in sc[b]:
            if s in dom.get(b, ()):
                out.append((b, s))
    return out


def natural_loop(body, tail, header):
    pr = preds(body)
    loop = {header, tail}
    st = [tail]
    while st:
        b = st.pop()
        if b == header:
            continue
        for p in pr[b]:
            if p not in loop and p in reachable(body):
                loop.add(p)
                st.append(p)
    return loop


def loops(body):
    """header -> set of blocks (union of natural loops with the same header)."""
    res = {}
    for tail, header in back_edges(body):
        res.setdefault(header, set()).update(natural_loop(body, tail, header))
    return res


def is_trivially_unreachable(body, bb):
    blk = body.blocks[bb]
    return not blk["stmts"] and blk["term"]["k"] == "unreachable"


# ------------------------------------------------------------------------------------------------ callee identity
def callee_def(c):
    """Canonical (resolved when possible) def string of a call's callee, or None for an indirect call."""
    if "indirect" in c:
        return None
    r = c.get("resolved")
    return r["def"] if r else c["def"]


def callee_key(c):
    return callee_info(c)["key"]


def callee_info(c):
    """dict with def, key, krate, local, unsafe, doc, trait, targs (type-arg strings), impl_self"""
    if "indirect" in c:
        return {"def": None, "key": "<indirect>", "krate": None, "local": False, "unsafe": False, "doc": None,
                "trait": None, "targs": [], "base": None, "base_key": "<indirect>", "resolved": False}
    r = c.get("resolved")
    src = r if r else c
    imp = src.get("impl_self")
    if imp is not None:
        key = make_key(src["def"], imp["s"], c.get("trait"), None)
    elif c.get("trait") and not r:
        key = make_key(c["def"], None, None, c["trait"])
    else:
        key = fn_key(src["def"])
    if c.get("trait"):
        base_key = make_key(c["def"], None, None, c["trait"]) if not c["def"].startswith("<") else fn_key(c["def"])
    elif c.get("impl_self") is not None:
        base_key = make_key(c["def"], c["impl_self"]["s"], None, None)
    else:
        base_key = fn_key(c["def"])
    doc = src.get("doc")
    if r and doc == "nodoc":
        doc = c.get("doc")
    return {
        "def": src["def"], "key": key, "krate": src.get("krate"), "local": src["local"],
        "unsafe": src["unsafe"], "doc": doc, "trait": c.get("trait"),
        "targs": [a for a in c.get("args", []) if a.get("k") != "lt"],
        "base": c["def"], "base_key": base_key, "resolved": bool(r),
        "impl_self": (r or c).get("impl_self"),
    }


def is_panic_callee(d):
    return d is not None and d.startswith(PANIC_PREFIXES)


def calls(body, only_reachable=True):
    """Yield (bb, term, info) for every call terminator."""
    reach = reachable(body) if only_reachable else None
    for i, blk in enumerate(body.blocks):
        if reach is not None and i not in reach:
            continue
        if blk.get("cleanup"):
            continue
        t = blk["term"]
        if t["k"] == "call":
            yield i, t, callee_info(t["callee"])


# ------------------------------------------------------------------------------------------------ def/use
def op_place(o):
    return o.get("copy") or o.get("move")


def op_local(o):
    p = op_place(o)
    if p is not None and not p["proj"]:
        return p["local"]
    return None


def defs_of(body):
    """local -> list of (bb, idx) where idx is a statement index or 'term' (call destination).
    Only whole-local assignments are recorded; projections assignments are recorded under key ('proj', local)."""
    res = {}
    for bi, blk in enumerate(body.blocks):
        if blk.get("cleanup"):
            continue
        for si, st in enumerate(blk["stmts"]):
            if st["k"] == "assign":
                p = st["place"]
                key = p["local"] if not p["proj"] else ("proj", p["local"])
                res.setdefault(key, []).append((bi, si))
        t = blk["term"]
        if t["k"] == "call":
            p = t["dest"]
            key = p["local"] if not p["proj"] else ("proj", p["local"])
            res.setdefault(key, []).append((bi, "term"))
    return res


class Expr:
    """Backward reconstruction of the value of an operand as an expression tree.

    Node forms (tuples):
      ('const', tystr, intval|None, text, cdef|None, strval|None)
      ('arg', index, name, tystr)
      ('call', key, defstr, [args], (bb), targs)        result of a call
      ('cast', kind, from, to, x)
      ('bin', op, l, r) ('un', op, x) ('ref', x) ('deref', x) ('field', x, name, idx, tystr) ('variant', x, name)
      ('index', x, i) ('agg', kind, name, variant, [fields]) ('discr', x) ('len', x)
      ('phi', local, tystr)       local with several definitions (loop variable, mutable binding)
      ('unk', what)
    """

    def __init__(self, body, crate=None):
        self.body = body
        self.crate = crate          # when given, calls of pure private helpers are replaced by their summary
        self.defs = defs_of(body)
        self._memo = {}

    def local(self, l, depth=0):
        if l in self._memo:
            return self._memo[l]
        if depth > 60:
            return ("unk", "depth")
        body = self.body
        ty = body.locals[l]["ty"]["s"]
        ds = self.defs.get(l, [])
        if 1 <= l <= body.arg_count and not ds:
            r = ("arg", l, body.locals[l]["name"], ty)
        elif len(ds) == 1 and ("proj", l) not in self.defs:
            bi, si = ds[0]
            self._memo[l] = ("phi", l, ty)  # cycle guard
            if si == "term":
                t = body.blocks[bi]["term"]
                info = callee_info(t["callee"])
                args = [self.operand(a, depth + 1) for a in t["args"]]
                r = ("call", info["key"], info["def"], args, bi, info["targs"])
                if self.crate is not None and info["def"] in self.crate.bodies:
                    sm = helper_summary(self.crate, self.crate.bodies[info["def"]])
                    if sm is not None:
                        r = subst_args(sm, args)
            else:
                r = self.rvalue(body.blocks[bi]["stmts"][si]["rv"], depth + 1)
        else:
            r = ("phi", l, ty)
        self._memo[l] = r
        return r

    def place(self, p, depth=0):
        cur = self.local(p["local"], depth)
        for pr in p["proj"]:
            k = pr["p"]
            if k == "deref":
                if cur[0] == "ref":
                    cur = cur[1]
                else:
                    cur = ("deref", cur)
            elif k == "field":
                if cur[0] == "agg" and cur[1] in ("tuple", "adt", "closure") and pr["i"] < len(cur[4]):
                    cur = cur[4][pr["i"]]
                elif cur[0] == "bin" and cur[1].endswith("WithOverflow"):
                    cur = ("bin", cur[1][:-12], cur[2], cur[3]) if pr["i"] == 0 else ("ovf", cur[1], cur[2], cur[3])
                else:
                    cur = ("field", cur, pr["name"] or str(pr["i"]), pr["i"], pr["ty"]["s"])
            elif k == "downcast":
                cur = ("variant", cur, pr["variant"])
            elif k == "index":
                cur = ("index", cur, self.local(pr["local"], depth))
            elif k == "constindex":
                cur = ("index", cur, ("const", "usize", pr["offset"], str(pr["offset"]), None, None))
            else:
                cur = ("unk", "proj:" + k)
        return cur

    def operand(self, o, depth=0):
        if "const" in o:
            c = o["const"]
            v = int(c["val"]) if c["val"] is not None else None
            if c.get("fn"):
                return ("fn", fn_key(callee_def(c["fn"]) or "?"), c["fn"])
            return ("const", c["ty"]["s"], v, c["s"], c.get("cdef"), c.get("str"))
        p = op_place(o)
        if p is None:
            return ("unk", "operand")
        return self.place(p, depth)

    def rvalue(self, rv, depth=0):
        k = rv["rv"]
        if k == "use":
            return self.operand(rv["x"], depth)
        if k in ("ref", "rawptr"):
            return ("ref", self.place(rv["place"], depth))
        if k == "cast":
            x = self.operand(rv["x"], depth)
            kind = rv["kind"]
            if "PointerCoercion" in kind and "Unsize" in kind:
                return ("cast", "Unsize", rv["from"]["s"], rv["to"]["s"], x)
            return ("cast", kind, rv["from"]["s"], rv["to"]["s"], x)
        if k == "bin":
            return ("bin", rv["op"], self.operand(rv["l"], depth), self.operand(rv["r"], depth))
        if k == "un":
            x = self.operand(rv["x"], depth)
            if rv["op"] == "PtrMetadata":
                return ("len", x)
            return ("un", rv["op"], x)
        if k == "discr":
            return ("discr", self.place(rv["place"], depth))
        if k == "agg":
            fs = [self.operand(f, depth) for f in rv["fields"]]
            kind = rv["kind"]
            if kind == "adt":
                return ("agg", "adt", rv["adt"], rv["variant"], fs)
            if kind == "closure":
                return ("agg", "closure", rv["def"], None, fs)
            return ("agg", kind, None, None, fs)
        if k == "repeat":
            return ("repeat", self.operand(rv["x"], depth), rv["n"])
        return ("unk", k)


def walk_expr(e):
    """Pre-order iteration over all sub-expressions."""
    st = [e]
    while st:
        x = st.pop()
        if not isinstance(x, tuple):
            continue
        yield x
        for y in (x[1:5] if x[0] == "call" else x[1:]):
            if isinstance(y, tuple):
                st.append(y)
            elif isinstance(y, list):
                st.extend(z for z in y if isinstance(z, tuple))


def strip_refs(e):
    while isinstance(e, tuple) and e[0] in ("ref", "deref"):
        e = e[1]
    return e


def show(e, depth=0):
    if not isinstance(e, tuple):
        return repr(e)
    if depth > 12:
        return "..."
    k = e[0]
    d = depth + 1
    if k == "const":
        if e[5] is not None:
            return repr(e[5])
        return str(e[2]) if e[2] is not None else short(e[3])
    if k == "arg":
        return "$%s" % (e[2] or e[1])
    if k == "call":
        return "%s(%s)" % (e[1], ", ".join(show(a, d) for a in e[3]))
    if k == "cast":
        return "(%s as %s)" % (show(e[4], d), short(e[3]))
    if k == "bin":
        return "(%s %s %s)" % (show(e[2], d), e[1], show(e[3], d))
    if k == "ovf":
        return "overflow(%s %s %s)" % (show(e[2], d), e[1], show(e[3], d))
    if k == "un":
        return "%s(%s)" % (e[1], show(e[2], d))
    if k == "ref":
        return "&" + show(e[1], d)
    if k == "deref":
        return "*" + show(e[1], d)
    if k == "field":
        return "%s.%s" % (show(e[1], d), e[2])
    if k == "variant":
        return "%s as %s" % (show(e[1], d), e[2])
    if k == "index":
        return "%s[%s]" % (show(e[1], d), show(e[2], d))
    if k == "agg":
        nm = short(e[2]) if e[2] else e[1]
        if e[3]:
            nm += "::" + e[3]
        return "%s{%s}" % (nm, ", ".join(show(a, d) for a in e[4]))
    if k == "discr":
        return "discr(%s)" % show(e[1], d)
    if k == "len":
        return "len(%s)" % show(e[1], d)
    if k == "phi":
        return "_%d" % e[1]
    if k == "fn":
        return "fn:" + e[1]
    if k in ("try", "ok", "residual", "errprop", "okval", "errval", "elem", "acc"):
        return "%s(%s)" % (k, show(e[1], d))
    if k == "static":
        return "static:" + short(e[1])
    if k == "repeat":
        return "[%s; %s]" % (show(e[1], d), e[2])
    return str(e[:2])


def loc(body, bb, si=None):
    """file:line of a statement / terminator (for humans only; never part of a key)."""
    blk = body.blocks[bb]
    sp = None
    if si is None or si == "term":
        sp = blk["term"].get("span")
    else:
        sp = blk["stmts"][si].get("span")
    if not sp:
        sp = body.span
    return "%s:%s" % (sp["f"], sp["l"])


# ------------------------------------------------------------------------------------------------ helper summaries
def helper_summary(crate, callee):
    """Return term of a pure, single-path, private, non-anchor helper (with ('arg', i, ..) placeholders), else None."""
    cache = crate.__dict__.setdefault("_summaries", {})
    if callee.defn in cache:
        return cache[callee.defn]
    cache[callee.defn] = None
    from . import walk as W
    w = W.Walker(callee, crate)
    if not w._auto_inlinable(callee, ()):
        return None
    paths = w.run()
    res = None
    if len(paths) == 1 and paths[0].outcome[0] == "return" and not paths[0].stores():
        res = paths[0].outcome[1]
    cache[callee.defn] = res
    return res


def subst_args(term, args):
    if not isinstance(term, tuple):
        return term
    if term[0] == "arg":
        i = term[1] - 1
        return args[i] if 0 <= i < len(args) else term
    if term[0] == "call":
        return ("call", term[1], term[2], [subst_args(a, args) for a in term[3]], term[4], term[5])
    out = []
    for x in term:
        if isinstance(x, tuple):
            out.append(subst_args(x, args))
        elif isinstance(x, list):
            out.append([subst_args(y, args) if isinstance(y, tuple) else y for y in x])
        else:
            out.append(x)
    return tuple(out)

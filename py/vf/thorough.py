"""Thorough-tier extensions: feature matrix, generated declaration family, statics of derive expansions."""
import itertools
import os
import shutil

from .core import VERIF, REPO
from .rules import s_state as S


class FeatureView:
    """Analysis facade whose core() is the desert_core build with one feature set."""

    def __init__(self, an, features):
        self._an = an
        self._f = features

    def core(self, features=None):
        return self._an.core(self._f)

    def __getattr__(self, k):
        return getattr(self._an, k)


FEATURES = ("none", "bigdecimal", "chrono_bigdecimal", "uuid")


def _retag(rep, start, suffix):
    for r in rep.rules[start:]:
        r.rule = "%s[%s]" % (r.rule, suffix)


def feature_matrix_grammar(an, rep):
    from .rules import g_grammar as G
    for f in FEATURES:
        start = len(rep.rules)
        view = FeatureView(an, f)
        G.pair_table(view, rep, f)
        G.writers_conform(view, rep, f)
        G.pairs_unify(view, rep, f)
        _retag(rep, start, f)


def feature_matrix_totality(an, rep):
    from .rules import n_totality as N
    from .rules import u_unsafe as U
    for f in FEATURES:
        start = len(rep.rules)
        view = FeatureView(an, f)
        N.may_panic(view, rep, "decode", "N1", min_roots=60, min_reach=80)
        N.sign_loss_casts(view, rep)
        N.alloc_taint(view, rep)
        U.inventory(view, rep)
        _retag(rep, start, f)


def feature_matrix(*rules, **kw):
    """thorough-tier factory: run the given rules of the quick tier again on every other feature set of desert_core (the
    rules read `an.core()`, which the FeatureView redirects); rule ids are suffixed with the feature set"""
    import inspect

    def run(an, rep):
        for f in FEATURES:
            start = len(rep.rules)
            view = FeatureView(an, f)
            for rule in rules:
                if "features" in inspect.signature(rule).parameters:
                    rule(view, rep, f)
                else:
                    rule(view, rep)
            _retag(rep, start, f)
    run.__name__ = kw.get("name", "feature_matrix_" + "_".join(r.__name__ for r in rules)[:60])
    return run


def derived_statics(an, rep):
    """S1/S2 over every crate that contains derive expansions (corpus + repository tests/benchmarks)."""
    crates = [an.corpus().crate("verif_corpus", False)]
    prog = an.program()
    for name, test in (("derivation", True), ("golden", True), ("string_deduplication", True), ("desert_benchmarks", False)):
        if prog.has_crate(name, test):
            crates.append(prog.crate(name, test))
    start = len(rep.rules)
    # scope: statics that come out of a #[derive(.. BinaryCodec ..)] expansion (call site = the derive attribute);
    # statics a test file declares for its own data are not library state
    for c in crates:
        keep = []
        for st in c.items["statics"]:
            if _from_derive(st) or c.name == "verif_corpus":
                keep.append(st)
        c.items = dict(c.items, statics=keep)
    S.statics_inventory(an, rep, crates=crates, ignore=("verif_corpus::bad::",), floor=60)
    S.lazy_initialisers(an, rep, crates=crates, floor=60)
    _retag(rep, start, "derive expansions")
    # positive example: the corpus' `static mut` must be seen by the inventory
    R = rep.rule("S1[self-test]", "the statics inventory sees the positive example corpus::bad::BAD_COUNTER (static mut)")
    found = any(st["mut"] and st["path"].endswith("BAD_COUNTER") for st in crates[0].items["statics"])
    R.check(found, "verif_corpus::bad::BAD_COUNTER", "positive example", "the planted `static mut` is not in the inventory: the "
            "rule would pass vacuously")


_LINES = {}


def _from_derive(st):
    f = st["span"]["f"]
    path = f if os.path.isabs(f) else os.path.join(REPO, f)
    if path not in _LINES:
        try:
            _LINES[path] = open(path).read().splitlines()
        except OSError:
            _LINES[path] = []
    ln = st["span"]["l"]
    text = _LINES[path][ln - 1] if 0 < ln <= len(_LINES[path]) else ""
    return "derive" in text and "BinaryCodec" in text


# ------------------------------------------------------------------------------------------------ generated family
TYPES = [("u8", "7u8"), ("String", "String::from(\"d\")"), ("Vec<u16>", "Vec::new()"), ("(u8, u32)", "(1u8, 2u32)")]
OPT_TYPES = [("Option<u32>", "None"), ("std::option::Option<String>", "Some(String::new())"), ("core::option::Option<u8>", "None")]


def generate_family(limit=700):
    """deterministic family of declarations: field types x transient masks x histories (<= 3 steps) x enum shapes"""
    out = ["#![allow(dead_code, unused_variables)]", "use desert::BinaryCodec;", ""]
    n = 0
    # structs
    for nf in (1, 2, 3, 4):
        for combo_i, combo in enumerate(itertools.product(range(len(TYPES) + len(OPT_TYPES)), repeat=nf)):
            if combo_i % (1 if nf <= 2 else 5 if nf == 3 else 37) != 0:
                continue
            for tmask in range(1 << nf):
                if bin(tmask).count("1") > 1 or (tmask and combo_i % 3):
                    continue
                fields = []
                for i, ti in enumerate(combo):
                    ty, dflt = (TYPES + OPT_TYPES)[ti]
                    fields.append({"name": "f%d" % i, "ty": ty, "default": dflt, "opt": ti >= len(TYPES), "transient": bool(tmask >> i & 1)})
                for hist in _histories(fields):
                    if n >= limit:
                        break
                    n += 1
                    name = "G%d" % n
                    noise = n % 3 == 0     # every third declaration carries unrelated attributes around the helper attributes
                    out.append("#[derive(BinaryCodec)]")
                    if noise:
                        out.append("/// generated declaration %d" % n)
                        out.append("#[allow(dead_code)]")
                    if hist:
                        out.append("#[evolution(%s)]" % ", ".join(hist))
                    if noise:
                        out.append("#[allow(clippy::all)]")
                    out.append("pub struct %s {" % name)
                    for f in fields:
                        if f["transient"]:
                            if noise:
                                out.append("    /// not on the wire")
                                out.append("    #[allow(dead_code)]")
                            out.append("    #[transient(%s)]" % f["default"])
                            if noise:
                                out.append("    #[allow(unused)]")
                        out.append("    pub %s: %s," % (f["name"], f["ty"]))
                    out.append("}")
                    out.append("")
    # enums
    shapes = ["unit", "tuple1", "tuple2", "named", "named_t"]
    en = 0
    for nv in (1, 2, 3, 4):
        for combo_i, combo in enumerate(itertools.product(range(len(shapes)), repeat=nv)):
            if combo_i % (1 if nv <= 2 else 7 if nv == 3 else 41) != 0:
                continue
            for tv in range(-1, nv):
                for sorted_ in (False, True):
                    if en >= limit // 3:
                        break
                    if sorted_ and combo_i % 2:
                        continue
                    en += 1
                    name = "E%d" % en
                    noise = en % 3 == 0
                    out.append("#[derive(BinaryCodec)]")
                    if noise:
                        out.append("/// generated enum %d" % en)
                        out.append("#[allow(dead_code)]")
                    if sorted_:
                        out.append("#[sorted_constructors]")
                    out.append("pub enum %s {" % name)
                    names = ["Zed", "Alpha", "Mike", "Bravo"]
                    for i, sh in enumerate(combo):
                        if i == tv:
                            if noise:
                                out.append("    /// never serialized")
                                out.append("    #[allow(dead_code)]")
                            out.append("    #[transient]")
                        vn = names[i]
                        s = shapes[sh]
                        if s == "unit":
                            out.append("    %s," % vn)
                        elif s == "tuple1":
                            out.append("    %s(u8)," % vn)
                        elif s == "tuple2":
                            if i != tv and i % 2 == 0:
                                out.append("    #[evolution(FieldAdded(\"field1\", String::new()))]")
                            out.append("    %s(Option<u8>, String)," % vn)
                        elif s == "named":
                            if i != tv and i % 2 == 1:
                                out.append("    #[evolution(FieldMadeOptional(\"b\"))]")
                            out.append("    %s { a: u16, b: Option<String> }," % vn)
                        else:
                            out.append("    %s { #[transient(0u8)] t: u8, a: u16 }," % vn)
                    out.append("}")
                    out.append("")
    return "\n".join(out), n + en


def _histories(fields):
    yield []
    steps = []
    for i, f in enumerate(fields):
        if f["transient"]:
            steps.append("FieldMadeTransient(\"%s\")" % f["name"])
            continue
        if i > 0:
            steps.append("FieldAdded(\"%s\", %s)" % (f["name"], f["default"]))
        if f["opt"]:
            steps.append("FieldMadeOptional(\"%s\")" % f["name"])
    steps.append("FieldRemoved(\"gone\")")
    for k in (1, 2, 3):
        for i, combo in enumerate(itertools.combinations(steps, k)):
            if i % (1 if k == 1 else 3) == 0:
                yield list(combo)


def generated_corpus(an, rep):
    from .rules import d_derive as D
    src, count = generate_family()

    def run(out):
        ws = os.path.join(out, "ws")
        os.makedirs(os.path.join(ws, "src"))
        open(os.path.join(ws, "src", "lib.rs"), "w").write(src)
        open(os.path.join(ws, "Cargo.toml"), "w").write(
            "[package]\nname = \"verif_corpus_gen\"\nversion = \"0.0.0\"\nedition = \"2021\"\n\n[workspace]\n\n"
            "[dependencies]\ndesert = { path = \"%s/desert\" }\nlazy_static = \"1.5\"\n" % REPO)
        shutil.copy(os.path.join(REPO, "Cargo.lock"), os.path.join(ws, "Cargo.lock"))
        an._extract(ws, os.path.join(out, "facts"), ["--lib"])
    import hashlib
    d = an._step("gen-corpus-" + hashlib.sha256(src.encode()).hexdigest()[:10], run)
    from .facts import Program
    prog = Program(os.path.join(d, "facts"))
    start = len(rep.rules)
    D.validate(an, rep, source=(os.path.join(d, "ws", "src", "lib.rs"), prog, "verif_corpus_gen"))
    _retag(rep, start, "generated family of %d declarations" % count)

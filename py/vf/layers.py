"""The primitive layer as a unit: the three sources, the region bookkeeping and the private helpers only they use."""
from . import callgraph, mir

SEED_KEYS = ("DeserializationContext::push_region", "DeserializationContext::pop_region", "DeserializationContext::new",
             "DeserializationContext::pos", "ResolvedInputRegion::unresolve", "InputRegion::new", "InputRegion::empty",
             "SliceInput::new", "OwnedInput::new")


def primitive_unit(core):
    cache = core.__dict__.setdefault("_prim_unit", None)
    if cache is not None:
        return cache
    unit = set()
    for b in core.bodies.values():
        k = b.key
        if b.impl and b.impl.get("trait") and b.impl["trait"].endswith("::BinaryInput"):
            unit.add(b.defn)
        elif k in SEED_KEYS:
            unit.add(b.defn)
        elif b.impl and b.impl.get("trait") and b.impl["trait"].split("::")[-1] in ("Clone", "Debug", "Copy") and \
                b.impl["self"]["s"].split("::")[-1].split("<")[0] in ("InputRegion", "ResolvedInputRegion"):
            unit.add(b.defn)
    cg = callgraph.CallGraph(core)
    callers = {}
    for f, es in cg.edges.items():
        for e in es:
            callers.setdefault(e, set()).add(f)
    from .walk import ANCHORS
    changed = True
    while changed:
        changed = False
        for b in core.bodies.values():
            if b.defn in unit:
                continue
            cs = callers.get(b.defn, set())
            root = b.raw.get("root")
            if b.kind == "Closure" and root in unit:
                unit.add(b.defn)
                changed = True
                continue
            if cs and cs <= unit and b.key not in ANCHORS and b.vis not in (None, "Public") and not (b.impl and b.impl.get("trait")):
                unit.add(b.defn)
                changed = True
    core.__dict__["_prim_unit"] = unit
    return unit


VARINT_KEYS = ("BinaryOutput::write_var_u32", "BinaryOutput::write_var_i32", "BinaryInput::read_var_u32", "BinaryInput::read_var_i32")


def varint_unit(core):
    """the four varint routines and the private helpers only they use (exhaustively interpreted by pack B)"""
    cached = core.__dict__.get("_varint_unit")
    if cached is not None:
        return cached
    unit = {b.defn for b in core.bodies.values() if b.key in VARINT_KEYS}
    cg = callgraph.CallGraph(core)
    callers = {}
    for f, es in cg.edges.items():
        for e in es:
            callers.setdefault(e, set()).add(f)
    from .walk import ANCHORS
    changed = True
    while changed:
        changed = False
        for b in core.bodies.values():
            if b.defn in unit:
                continue
            cs = callers.get(b.defn, set())
            if b.kind == "Closure" and b.raw.get("root") in unit:
                unit.add(b.defn)
                changed = True
            elif cs and cs <= unit and b.key not in ANCHORS and b.vis not in (None, "Public") and not (b.impl and b.impl.get("trait")):
                unit.add(b.defn)
                changed = True
    core.__dict__["_varint_unit"] = unit
    return unit

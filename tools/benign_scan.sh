#!/usr/bin/env bash
# benign_scan.sh <dir>... : for each patch print the distinct failing rule lines over all properties (scratch worktrees kept)
for D in "$@"; do
  N=$(basename $D)
  OUT=$(for P in C01 C02 C03 C04 C05 C06 C07 C08 C09 C10 C11 C12 C13 C14 C15 C16 C17 C18 C19; do LINES_MAX=40 COLS_MAX=230 /verif/tools/try_patch.sh $D $P | grep -E "^  rule"; done | sort | uniq -c | sort -rn | head -${TOP:-6})
  [ -n "$OUT" ] && echo "=== $N" && echo "$OUT"
done

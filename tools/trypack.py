#!/usr/bin/env python3
"""dev helper: run rule functions given as module:func and print violations only"""
import sys, json
sys.path.insert(0,'/verif/py')
from vf.core import Analysis
from vf import report
import importlib
an=Analysis()
rep=report.Report('TEST','quick','other')
for spec in sys.argv[1:]:
    mod,fn=spec.split(':')
    m=importlib.import_module('vf.rules.'+mod)
    getattr(m,fn)(an,rep)
for r in rep.rules:
    print(r.rule, '%d/%d'%(r.discharged,r.obligations), r.counts)
    for v in r.violations:
        print('   V', v['key'], '|', v['what'][:400], '|', v['where'], '|', (json.dumps(v.get('detail'))[:300] if v.get('detail') else ''))

#!/usr/bin/env bash
# round 7: /tmp/seed7/Cxx/_out/mutant{1,2,3} -> seeded/Cxx-{12,13} (verified in a scratch worktree)
for P in "$@"; do
  for k in 1 2; do
    O=/tmp/seed7/$P/_out
    [ -f $O/mutant$k.diff ] || { echo "missing $P $k"; continue; }
    D=/verif/seeded/$P-$((k+11)); mkdir -p $D
    cp $O/mutant$k.diff $D/patch.diff; cp $O/demo$k.rs $D/demo.rs; cp $O/meta$k.json $D/agent_meta.json
    LOC=$(python3 -c "import json;print(json.load(open('$O/meta$k.json')).get('demo_location','').split()[0])")
    /verif/tools/verify_seed.sh $P-$((k+11)) $D/patch.diff $D/demo.rs "$LOC" | tee $D/verify.txt
    python3 - "$D" "$P" <<'PY'
import json,sys
d,p=sys.argv[1],sys.argv[2]
a=json.load(open(d+'/agent_meta.json'))
v=open(d+'/verify.txt').read().strip().splitlines()[-1]
m={"property":p,"round":7,"breaks":a.get("breaks",""),"disguise":a.get("disguise",""),"needs_to_manifest":a.get("needs_to_manifest",""),
   "demo_location":a.get("demo_location",""),"produced_by":"independent sub-agent given only the property text and a scratch worktree",
   "confirmed_by_me":{"how":"tools/verify_seed.sh in a scratch worktree of /repo HEAD: cargo test --workspace --offline with the patch; demo as an integration test with and without the patch","result":v}}
json.dump(m,open(d+'/meta.json','w'),indent=1)
PY
  done
done

#!/usr/bin/env bash
# run_seeded.sh <seeded-dir> <prop> [<prop>...] : apply the patch to /repo, run the checks, revert.
D="$1"; shift
cd /repo || exit 2
git diff --quiet || { echo "/repo not clean"; exit 2; }
git apply "$D/patch.diff" || { echo "cannot apply $D"; exit 2; }
trap 'git -C /repo checkout -- . ; git -C /repo clean -fdq -e target' EXIT
cd /verif
for P in "$@"; do
  OUT=$(./check $P 2>&1); RC=$?
  echo "== $(basename $D) $P rc=$RC"
  echo "$OUT" | grep -E "^(VIOLATION|  rule|  at)" | head -12
done

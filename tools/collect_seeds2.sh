#!/usr/bin/env bash
# round 2: /tmp/seed2/Cxx/_out/mutant{1,2,3} -> seeded/Cxx-{3,4,5}
for P in "$@"; do
  for k in 1 2 3; do
    O=/tmp/seed2/$P/_out
    [ -f $O/mutant$k.diff ] || { echo "missing $P $k"; continue; }
    D=/verif/seeded/$P-$((k+2)); mkdir -p $D
    cp $O/mutant$k.diff $D/patch.diff; cp $O/demo$k.rs $D/demo.rs; cp $O/meta$k.json $D/agent_meta.json
    LOC=$(python3 -c "import json;print(json.load(open('$O/meta$k.json')).get('demo_location','').split()[0])")
    /verif/tools/verify_seed.sh $P-$((k+2)) $D/patch.diff $D/demo.rs "$LOC" | tee $D/verify.txt
  done
done

#!/usr/bin/env bash
# verify_seed.sh <name> <mutant.diff> <demo.rs> <demo_location relative to repo root>
# Confirms in a scratch worktree of /repo HEAD: (1) existing suite passes with the mutant, (2) the demo fails
# with the mutant, (3) the demo passes without it.  Prints one RESULT line.  Scratch worktree is removed.
set -uo pipefail
NAME="$1"; DIFF="$(realpath "$2")"; DEMO="$(realpath "$3")"; LOC="$4"
WT="/tmp/seedverify/$NAME"
export CARGO_TARGET_DIR="/tmp/seedverify/target-$NAME" CARGO_NET_OFFLINE=true
mkdir -p /tmp/seedverify
git -C /repo worktree remove --force "$WT" >/dev/null 2>&1
git -C /repo worktree add -q --detach "$WT" HEAD || exit 2
cd "$WT"
PKG="$(echo "$LOC" | cut -d/ -f1)"
TESTNAME="$(basename "$LOC" .rs)"
mkdir -p "$(dirname "$LOC")"
r_suite=skip; r_demo_mut=skip; r_demo_clean=skip
if git apply --check "$DIFF" 2>/dev/null; then
  git apply "$DIFF"
  if cargo test --workspace --offline >/tmp/seedverify/$NAME.suite.log 2>&1; then r_suite=pass; else r_suite=FAIL; fi
  cp "$DEMO" "$LOC"
  if cargo test -p "$PKG" --test "$TESTNAME" --offline >/tmp/seedverify/$NAME.demo_mut.log 2>&1; then r_demo_mut=pass; else r_demo_mut=fail; fi
  rm -f "$LOC"; git checkout -q -- . ; cp "$DEMO" "$LOC"
  if cargo test -p "$PKG" --test "$TESTNAME" --offline >/tmp/seedverify/$NAME.demo_clean.log 2>&1; then r_demo_clean=pass; else r_demo_clean=FAIL; fi
else
  r_suite=NOAPPLY
fi
cd /
git -C /repo worktree remove --force "$WT" >/dev/null 2>&1
rm -rf "$CARGO_TARGET_DIR"
echo "RESULT $NAME suite_with_mutant=$r_suite demo_with_mutant=$r_demo_mut demo_clean=$r_demo_clean"

#!/usr/bin/env bash
# try_patch.sh <dir-with-patch.diff> <prop>... : run checks against the patched tree in a scratch worktree (kept until 'clean')
D="$1"; shift
N=$(basename "$D"); W=/tmp/trypatch/$N
if [ ! -d "$W" ]; then
  mkdir -p /tmp/trypatch
  git -C /repo worktree add -q --detach "$W" HEAD || exit 2
  git -C "$W" apply "$D/patch.diff" || { echo "patch does not apply"; exit 2; }
fi
export VERIF_REPO="$W" VERIF_EVIDENCE="/tmp/trypatch/ev-$N"
cd /verif
for P in "$@"; do
  ./check $P 2>&1 | grep -E "^(VIOLATION|  rule|  at|  detail|C[0-9][0-9] )" | grep -v "^VIOLATION" | head -${LINES_MAX:-14} | cut -c1-${COLS_MAX:-400}
done

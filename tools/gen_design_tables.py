#!/usr/bin/env python3
"""Regenerates the tables of DESIGN.md section 10.3 / 10.4 from seeded/DETECTION_MATRIX.json, benign/SILENCE_MATRIX.json and
the meta.json files (between the BEGIN/END markers)."""
import json, os, re
V = "/verif"


def short(t, n):
    t = re.sub(r"\s+", " ", t or "").strip()
    return t if len(t) <= n else t[:n - 1].rstrip() + "…"


def seeded():
    M = json.load(open(V + "/seeded/DETECTION_MATRIX.json"))
    out = ["| change | what it breaks (as described by its author) | rules of the property's own check that fire | also caught by |",
           "|---|---|---|---|"]
    for n in sorted(M, key=lambda s: (s.split("-")[0], int(s.split("-")[1]))):
        meta = json.load(open("%s/seeded/%s/meta.json" % (V, n)))
        prop = n.split("-")[0]
        own = ", ".join(M[n].get(prop, [])) or "**missed**"
        others = " ".join(sorted(p for p in M[n] if p != prop)) or "-"
        out.append("| %s | %s | %s | %s |" % (n, short(meta.get("breaks", ""), 170).replace("|", "/"), own, others))
    return "\n".join(out)


def benign():
    B = json.load(open(V + "/benign/SILENCE_MATRIX.json"))
    out = ["| refactoring | kind | checks that alarm |", "|---|---|---|"]
    for n in sorted(B, key=lambda s: (s[0], int(s[1:].split("-")[0]), int(s.split("-")[1]))):
        meta = json.load(open("%s/benign/%s/meta.json" % (V, n)))
        out.append("| %s | %s | %s |" % (n, short(meta.get("kind", ""), 120).replace("|", "/"), " ".join(B[n]) or "none"))
    return "\n".join(out)


def splice(text, tag, body):
    a, b = "<!-- BEGIN %s -->" % tag, "<!-- END %s -->" % tag
    i, j = text.index(a) + len(a), text.index(b)
    return text[:i] + "\n" + body + "\n" + text[j:]


if __name__ == "__main__":
    p = V + "/DESIGN.md"
    t = open(p).read()
    t = splice(t, "SEEDED-TABLE", seeded())
    t = splice(t, "BENIGN-TABLE", benign())
    open(p, "w").write(t)

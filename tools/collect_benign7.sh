#!/usr/bin/env bash
# round 7: /tmp/benign7/Mn/_out/refactor<k>.diff -> benign/Mn-k
for B in "$@"; do
  for k in 1 2 3 4 5; do
    O=/tmp/benign7/$B/_out
    [ -f $O/refactor$k.diff ] || continue
    D=/verif/benign/$B-$k; mkdir -p $D
    cp $O/refactor$k.diff $D/patch.diff; cp $O/meta$k.json $D/meta.json
  done
done
ls /verif/benign | tr '\n' ' '

#!/usr/bin/env bash
# mutant_matrix.sh <outdir> <seeded-dir>... : run every quick check against each mutant in its own scratch copy (parallel)
OUT="$1"; shift
mkdir -p "$OUT"
# run against a snapshot of the rule code so that /verif/py can be edited while the matrix runs
SNAP=$(mktemp -d /tmp/vfsnap.XXXX); cp -r /verif/py "$SNAP/py"; export VERIF_PY="$SNAP/py" VERIF_HOME=/verif
run_one() {
  D="$1"; OUT="$2"; N=$(basename "$D")
  W=/tmp/mutrun/$N
  rm -rf "$W"; mkdir -p /tmp/mutrun
  git -C /repo worktree add -q --detach "$W" HEAD 2>/dev/null || { echo "worktree failed $N"; return; }
  if ! git -C "$W" apply "$D/patch.diff"; then echo "$N: patch does not apply" > "$OUT/$N.txt"; git -C /repo worktree remove --force "$W"; return; fi
  export VERIF_REPO="$W" VERIF_EVIDENCE="/tmp/mutrun/ev-$N"
  : > "$OUT/$N.txt"
  PROPS="C01 C02 C03 C04 C05 C06 C07 C08 C09 C10 C11 C12 C13 C14 C15 C16 C17 C18 C19"
  [ -n "$PROPS_OVERRIDE" ] && PROPS="$PROPS_OVERRIDE"
  [ "$OWN_ONLY" = 1 ] && PROPS="${N%%-*}"        # OWN_ONLY=1: only the property the mutant was written against
  for P in $PROPS; do
    R=$(cd /verif && ./check $P 2>&1); RC=$?
    RULES=$(echo "$R" | grep -E "^  rule " | sed -E 's/^  rule ([A-Za-z0-9\[\]-]+):.*/\1/' | sort -u | tr '\n' ',')
    echo "$P rc=$RC rules=$RULES" >> "$OUT/$N.txt"
    echo "$R" | grep -E "^(VIOLATION|  rule|  at)" | head -9 > "$OUT/$N.$P.detail"
  done
  H=$(cd /verif && PYTHONPATH=$VERIF_PY python3 -c "from vf.core import tree_hash; print(tree_hash())")
  [ -n "$H" ] && rm -rf "/verif/.cache/$H"
  rm -rf "/tmp/mutrun/ev-$N"
  git -C /repo worktree remove --force "$W"
  echo "done $N"
}
export -f run_one
printf "%s\n" "$@" | xargs -P ${PAR:-6} -I{} bash -c 'run_one {} '"$OUT"
rm -rf "$SNAP"

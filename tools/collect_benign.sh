#!/usr/bin/env bash
# collect_benign.sh Bn ... : copy agent refactorings into /verif/benign/Bn-k/ (patch.diff + meta.json)
for B in "$@"; do
  for k in 1 2 3 4 5; do
    O=/tmp/benign/$B/_out
    [ -f $O/refactor$k.diff ] || continue
    D=/verif/benign/$B-$k; mkdir -p $D
    cp $O/refactor$k.diff $D/patch.diff; cp $O/meta$k.json $D/meta.json
  done
done
ls /verif/benign

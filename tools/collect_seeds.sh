#!/usr/bin/env bash
# collect_seeds.sh Cxx ... : copy agent outputs from /tmp/seed/Cxx/_out to /verif/seeded/Cxx-k/, verify each, record results
for P in "$@"; do
  for k in 1 2; do
    O=/tmp/seed/$P/_out
    [ -f $O/mutant$k.diff ] || { echo "missing $P $k"; continue; }
    D=/verif/seeded/$P-$k; mkdir -p $D
    cp $O/mutant$k.diff $D/patch.diff; cp $O/demo$k.rs $D/demo.rs; cp $O/meta$k.json $D/agent_meta.json
    LOC=$(python3 -c "import json;print(json.load(open('$O/meta$k.json')).get('demo_location','').split()[0])")
    /verif/tools/verify_seed.sh $P-$k $D/patch.diff $D/demo.rs "$LOC" | tee $D/verify.txt
  done
done

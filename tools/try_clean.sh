#!/usr/bin/env bash
for W in /tmp/trypatch/*; do [ -d "$W/.git" ] || [ -f "$W/.git" ] && git -C /repo worktree remove --force "$W" 2>/dev/null; done
git -C /repo worktree prune; rm -rf /tmp/trypatch
cd /verif && H=$(PYTHONPATH=py python3 -c "from vf.core import tree_hash; print(tree_hash())") && for d in .cache/????????????????????; do [ "$d" = ".cache/$H" ] || rm -rf "$d"; done

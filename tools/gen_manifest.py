#!/usr/bin/env python3
"""Regenerate MANIFEST.json from py/vf/props.py (claimed properties) and manifest_meta.json (level texts, N/A reasons)."""
import json, sys
sys.path.insert(0, '/verif/py')
from vf import props
meta = json.load(open('/verif/manifest_meta.json'))
all_ids = [json.loads(l)['id'] for l in open('/verif/properties.jsonl')]
checks = []
na = []
for pid in all_ids:
    if pid in props.PROPS:
        sp = props.PROPS[pid]
        m = meta["checks"].get(pid, {})
        checks.append({
            "property_id": pid,
            "quick_cmd": "./check %s --tier quick" % pid,
            "thorough_cmd": "./check %s --tier thorough" % pid,
            "evidence_file": "/verif/evidence/%s.json" % pid,
            "replay_cmd_template": "./check %s --explain {path}" % pid,
            "engine": "vf",
            "level_claimed": {"category": sp["level"], "text": m.get("level_text", sp["explanation"]), "design_ref": "DESIGN.md section 5, %s" % pid},
            "level_note": "; ".join(sp["assumptions"]),
            "technique": m.get("technique", "static analysis over resolved MIR (custom rustc_private driver + rule packs)"),
        })
    else:
        na.append({"property_id": pid, "reason": meta["not_applicable"].get(pid, "no check of this property is registered in this revision")})
man = {
    "version": 1,
    "setup_cmd": "./setup.sh",
    "hooks": {"guard": "vigoo_desert_rust_verif", "enable": "none: the analysis reads the unmodified sources; no guarded code exists in /repo",
              "baseline_off_cmd": "cd /repo && cargo test --workspace --no-fail-fast --offline", "source_commits": [], "add_only": True},
    "engines": [
        {"name": "vf", "path": "/verif/check", "serves_properties": sorted(props.PROPS), "kind_free_text": "static analysis: rustc_private MIR/HIR fact extraction (engine/mirdump) + Python rule packs (py/vf): call-graph reachability, dominator-based guard discharge, path-sensitive term walker, GF(2) bit-vector abstract interpretation, declaration model vs macro expansion, compile-fail witnesses"},
    ],
    "checks": checks,
    "not_applicable": na,
    "notes": meta.get("notes", ""),
}
json.dump(man, open('/verif/MANIFEST.json', 'w'), indent=1)
print("claimed:", [c["property_id"] for c in checks], "n/a:", [n["property_id"] for n in na])

//! Compile-verdict witnesses for C18 (auto traits) and C19 (lifetime escapes through the safe public API).
//!
//! Every `compile_fail` witness has a `no_run` twin that differs only in the offending line(s), so a witness that
//! fails to compile for an unrelated reason (wrong path, missing import) is caught by its twin failing too.
//! The checker runs `cargo +nightly test --doc` (error codes are only honoured on nightly) and reads the verdict
//! per doc-test; nothing is executed (`no_run`).
#![forbid(unsafe_code)]

/// W1 - a reference stored in the per-stream object table must not be readable after the object is gone.
pub mod w1 {
    /// ```compile_fail
    /// #![forbid(unsafe_code)]
    /// use desert::{BinaryOutput, DeserializationContext, SerializationContext};
    /// let mut out = SerializationContext::new(Vec::<u8>::new());
    /// out.write_var_u32(1);
    /// let bytes = out.into_output();
    /// let mut ctx = DeserializationContext::new(&bytes);
    /// {
    ///     let short_lived = String::from("gone");
    ///     ctx.state_mut().store_ref(&short_lived);
    /// } // `short_lived` is dropped here
    /// let dangling = ctx.try_read_ref().unwrap().unwrap();
    /// let _ = dangling.downcast_ref::<String>().map(|s| s.len());
    /// ```
    pub struct Bad;

    /// ```no_run
    /// #![forbid(unsafe_code)]
    /// use desert::{BinaryOutput, DeserializationContext, SerializationContext};
    /// let mut out = SerializationContext::new(Vec::<u8>::new());
    /// out.write_var_u32(1);
    /// let bytes = out.into_output();
    /// let mut ctx = DeserializationContext::new(&bytes);
    /// let long_lived = String::from("alive");
    /// ctx.state_mut().store_ref(&long_lived);
    /// let fine = ctx.try_read_ref().unwrap().unwrap();
    /// let _ = fine.downcast_ref::<String>().map(|s| s.len());
    /// ```
    pub struct Twin;
}

/// W2 - a DeserializationContext cannot outlive its input.
pub mod w2 {
    /// ```compile_fail,E0597
    /// use desert::{BinaryInput, DeserializationContext};
    /// let mut ctx;
    /// {
    ///     let bytes = vec![1u8, 2, 3];
    ///     ctx = DeserializationContext::new(&bytes);
    /// }
    /// let _ = ctx.read_u8();
    /// ```
    pub struct Bad;

    /// ```no_run
    /// use desert::{BinaryInput, DeserializationContext};
    /// let mut ctx;
    /// let bytes = vec![1u8, 2, 3];
    /// {
    ///     ctx = DeserializationContext::new(&bytes);
    /// }
    /// let _ = ctx.read_u8();
    /// ```
    pub struct Twin;
}

/// W3 - a slice handed out by read_bytes cannot be held across another read.
pub mod w3 {
    /// ```compile_fail,E0499
    /// use desert::{BinaryInput, DeserializationContext};
    /// let bytes = vec![1u8, 2, 3, 4];
    /// let mut ctx = DeserializationContext::new(&bytes);
    /// let first = ctx.read_bytes(2).unwrap();
    /// let second = ctx.read_bytes(2).unwrap();
    /// let _ = (first.len(), second.len());
    /// ```
    pub struct Bad;

    /// ```no_run
    /// use desert::{BinaryInput, DeserializationContext};
    /// let bytes = vec![1u8, 2, 3, 4];
    /// let mut ctx = DeserializationContext::new(&bytes);
    /// let first = ctx.read_bytes(2).unwrap().to_vec();
    /// let second = ctx.read_bytes(2).unwrap();
    /// let _ = (first.len(), second.len());
    /// ```
    pub struct Twin;
}

/// W4 - a reference obtained from try_read_ref cannot be held across a mutation of the table.
pub mod w4 {
    /// ```compile_fail,E0499
    /// use desert::DeserializationContext;
    /// let bytes = vec![1u8];
    /// let value = 7u32;
    /// let mut ctx = DeserializationContext::new(&bytes);
    /// ctx.state_mut().store_ref(&value);
    /// let r = ctx.try_read_ref().unwrap();
    /// ctx.state_mut().store_ref(&value);
    /// let _ = r.is_some();
    /// ```
    pub struct Bad;

    /// ```no_run
    /// use desert::DeserializationContext;
    /// let bytes = vec![1u8];
    /// let value = 7u32;
    /// let mut ctx = DeserializationContext::new(&bytes);
    /// ctx.state_mut().store_ref(&value);
    /// let r = ctx.try_read_ref().unwrap().is_some();
    /// ctx.state_mut().store_ref(&value);
    /// let _ = r;
    /// ```
    pub struct Twin;
}

/// W5 - the raw tables of the per-stream state are not reachable from client code.
pub mod w5 {
    /// ```compile_fail,E0616
    /// use desert::DeserializationContext;
    /// let bytes = vec![1u8];
    /// let ctx = DeserializationContext::new(&bytes);
    /// let _ = &ctx.state().refs_by_id;
    /// ```
    pub struct Bad;

    /// ```no_run
    /// use desert::{DeserializationContext, RefId};
    /// let bytes = vec![1u8];
    /// let ctx = DeserializationContext::new(&bytes);
    /// let _ = ctx.state().get_ref_by_id(RefId(1)).is_some();
    /// ```
    pub struct Twin;
}

/// W6 - the region API (which moves the read window) is not callable from client code.
pub mod w6 {
    /// ```compile_fail,E0624
    /// use desert::DeserializationContext;
    /// let bytes = vec![1u8];
    /// let mut ctx = DeserializationContext::new(&bytes);
    /// let _ = ctx.pop_region();
    /// ```
    pub struct Bad;

    /// ```no_run
    /// use desert::{BinaryInput, DeserializationContext};
    /// let bytes = vec![1u8];
    /// let mut ctx = DeserializationContext::new(&bytes);
    /// let _ = ctx.skip(1);
    /// ```
    pub struct Twin;
}

/// W7 - a SliceInput cannot outlive the bytes it reads.
pub mod w7 {
    /// ```compile_fail,E0597
    /// use desert::{BinaryInput, SliceInput};
    /// let mut input;
    /// {
    ///     let bytes = vec![1u8, 2];
    ///     input = SliceInput::new(&bytes);
    /// }
    /// let _ = input.read_u8();
    /// ```
    pub struct Bad;

    /// ```no_run
    /// use desert::{BinaryInput, SliceInput};
    /// let mut input;
    /// let bytes = vec![1u8, 2];
    /// {
    ///     input = SliceInput::new(&bytes);
    /// }
    /// let _ = input.read_u8();
    /// ```
    pub struct Twin;
}

/// W8 - a reference from try_read_ref cannot outlive the context that owns the table.
pub mod w8 {
    /// ```compile_fail,E0597
    /// use desert::DeserializationContext;
    /// let bytes = vec![0u8];
    /// let r;
    /// {
    ///     let mut ctx = DeserializationContext::new(&bytes);
    ///     r = ctx.try_read_ref();
    /// }
    /// let _ = r.is_ok();
    /// ```
    pub struct Bad;

    /// ```no_run
    /// use desert::DeserializationContext;
    /// let bytes = vec![0u8];
    /// let r;
    /// let mut ctx = DeserializationContext::new(&bytes);
    /// {
    ///     r = ctx.try_read_ref();
    /// }
    /// let _ = r.is_ok();
    /// ```
    pub struct Twin;
}

/// W9 - a reference looked up in the object table cannot outlive the context that owns the table.
pub mod w9 {
    /// ```compile_fail,E0597
    /// use desert::{DeserializationContext, RefId};
    /// let bytes = vec![0u8];
    /// let r;
    /// {
    ///     let ctx = DeserializationContext::new(&bytes);
    ///     r = ctx.state().get_ref_by_id(RefId(1));
    /// }
    /// let _ = r.is_some();
    /// ```
    pub struct Bad;

    /// ```no_run
    /// use desert::{DeserializationContext, RefId};
    /// let bytes = vec![0u8];
    /// let r;
    /// let ctx = DeserializationContext::new(&bytes);
    /// {
    ///     r = ctx.state().get_ref_by_id(RefId(1));
    /// }
    /// let _ = r.is_some();
    /// ```
    pub struct Twin;
}

/// W10 - a string looked up in the string table cannot outlive the context that owns the table.
pub mod w10 {
    /// ```compile_fail,E0597
    /// use desert::{DeserializationContext, StringId};
    /// let bytes = vec![0u8];
    /// let s;
    /// {
    ///     let ctx = DeserializationContext::new(&bytes);
    ///     s = ctx.state().get_string_by_id(StringId(1));
    /// }
    /// let _ = s.is_some();
    /// ```
    pub struct Bad;

    /// ```no_run
    /// use desert::{DeserializationContext, StringId};
    /// let bytes = vec![0u8];
    /// let s;
    /// let ctx = DeserializationContext::new(&bytes);
    /// {
    ///     s = ctx.state().get_string_by_id(StringId(1));
    /// }
    /// let _ = s.is_some();
    /// ```
    pub struct Twin;
}

/// S1..S3 - per-call state cannot cross threads; per-type metadata can be shared.
pub mod auto {
    /// ```compile_fail,E0277
    /// fn assert_send<T: Send>() {}
    /// assert_send::<desert::SerializationContext<Vec<u8>>>();
    /// ```
    pub struct SerializationContextIsNotSend;

    /// ```compile_fail,E0277
    /// fn assert_send<T: Send>() {}
    /// assert_send::<desert::DeserializationContext<'static>>();
    /// ```
    pub struct DeserializationContextIsNotSend;

    /// ```compile_fail,E0277
    /// fn assert_sync<T: Sync>() {}
    /// assert_sync::<desert::DeserializationContext<'static>>();
    /// ```
    pub struct DeserializationContextIsNotSync;

    /// ```no_run
    /// fn assert_send<T: Send>() {}
    /// fn assert_sync<T: Sync>() {}
    /// assert_send::<Vec<u8>>();
    /// assert_sync::<desert::adt::AdtMetadata>();
    /// assert_send::<desert::adt::AdtMetadata>();
    /// assert_sync::<desert::Error>();
    /// ```
    pub struct Twin;
}
